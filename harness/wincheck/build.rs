//! Cuts `cfg(windows)` items that need only `std` out of /repo/src and writes
//! them to OUT_DIR so that they can be compiled on Linux against a UTF-16 shim.
use std::path::PathBuf;

/// Index of the brace that closes the one at `open` (a tiny Rust lexer:
/// comments, strings, raw strings, char literals vs lifetimes).
fn match_brace(s: &[u8], open: usize) -> Option<usize> {
    let mut i = open;
    let mut depth = 0i32;
    while i < s.len() {
        let c = s[i];
        match c {
            b'/' if i + 1 < s.len() && s[i + 1] == b'/' => {
                while i < s.len() && s[i] != b'\n' {
                    i += 1;
                }
                continue;
            }
            b'/' if i + 1 < s.len() && s[i + 1] == b'*' => {
                let mut d = 1;
                i += 2;
                while i + 1 < s.len() && d > 0 {
                    if s[i] == b'/' && s[i + 1] == b'*' {
                        d += 1;
                        i += 2;
                    } else if s[i] == b'*' && s[i + 1] == b'/' {
                        d -= 1;
                        i += 2;
                    } else {
                        i += 1;
                    }
                }
                continue;
            }
            b'r' if i + 1 < s.len() && (s[i + 1] == b'"' || s[i + 1] == b'#') && (i == 0 || !(s[i - 1].is_ascii_alphanumeric() || s[i - 1] == b'_')) => {
                // raw string?
                let mut j = i + 1;
                let mut hashes = 0;
                while j < s.len() && s[j] == b'#' {
                    hashes += 1;
                    j += 1;
                }
                if j < s.len() && s[j] == b'"' {
                    j += 1;
                    'outer: while j < s.len() {
                        if s[j] == b'"' {
                            let mut k = 0;
                            while k < hashes && j + 1 + k < s.len() && s[j + 1 + k] == b'#' {
                                k += 1;
                            }
                            if k == hashes {
                                j += 1 + hashes;
                                break 'outer;
                            }
                        }
                        j += 1;
                    }
                    i = j;
                    continue;
                }
            }
            b'"' => {
                i += 1;
                while i < s.len() && s[i] != b'"' {
                    if s[i] == b'\\' {
                        i += 1;
                    }
                    i += 1;
                }
                i += 1;
                continue;
            }
            b'\'' => {
                // char literal or lifetime
                if i + 2 < s.len() && s[i + 1] == b'\\' {
                    // escaped char literal: skip to closing quote
                    i += 2;
                    while i < s.len() && s[i] != b'\'' {
                        i += 1;
                    }
                    i += 1;
                    continue;
                }
                // find the end of one UTF-8 char
                let mut j = i + 1;
                if j < s.len() {
                    j += 1;
                    while j < s.len() && (s[j] & 0xC0) == 0x80 {
                        j += 1;
                    }
                }
                if j < s.len() && s[j] == b'\'' {
                    i = j + 1;
                    continue;
                }
                // lifetime
            }
            b'{' => depth += 1,
            b'}' => {
                depth -= 1;
                if depth == 0 {
                    return Some(i);
                }
            }
            _ => {}
        }
        i += 1;
    }
    None
}

fn extract_after(src: &str, marker: &str, from: usize) -> Option<(usize, String)> {
    let pos = src[from..].find(marker)? + from;
    let line_start = src[..pos].rfind('\n').map(|p| p + 1).unwrap_or(0);
    let open = src[pos..].find('{')? + pos;
    let close = match_brace(src.as_bytes(), open)?;
    Some((close, src[line_start..=close].to_string()))
}

fn main() {
    let repo = std::env::var("VERIF_REPO").unwrap_or_else(|_| "/repo".into());
    let out = PathBuf::from(std::env::var("OUT_DIR").unwrap());
    let popen_p = format!("{}/src/popen.rs", repo);
    let comm_p = format!("{}/src/communicate.rs", repo);
    println!("cargo:rerun-if-changed={}", popen_p);
    println!("cargo:rerun-if-changed={}", comm_p);
    println!("cargo:rerun-if-env-changed=VERIF_REPO");
    let popen = std::fs::read_to_string(&popen_p).unwrap_or_default();
    let mut err: Vec<String> = vec![];
    let mut text = String::new();
    // the windows `mod os` starts after `#[cfg(windows)]\nmod os {`
    let win_start = popen.find("#[cfg(windows)]\nmod os").unwrap_or(0);
    for name in ["fn format_env_block(", "fn assemble_cmdline(", "fn append_quoted("] {
        match extract_after(&popen, name, win_start) {
            Some((_, t)) => {
                text.push_str(&t);
                text.push_str("\n\n");
            }
            None => {
                err.push(format!("cannot find `{}` in {}", name, popen_p));
                // stub so that the crate still builds and the check can exit 2
                text.push_str(match name {
                    "fn format_env_block(" => "fn format_env_block(_: &[(OsString, OsString)]) -> Vec<u16> { unimplemented!() }\n",
                    "fn assemble_cmdline(" => "fn assemble_cmdline(_: Vec<OsString>) -> io::Result<OsString> { unimplemented!() }\n",
                    _ => "#[allow(dead_code)] fn append_quoted(_: &OsStr, _: &mut Vec<u16>) { unimplemented!() }\n",
                });
            }
        }
    }
    std::fs::write(out.join("win_popen.rs"), &text).unwrap();

    // Windows threaded communicate: `#[cfg(windows)]\nmod raw { ... }`
    let comm = std::fs::read_to_string(&comm_p).unwrap_or_default();
    let mut raw = String::new();
    match comm.find("#[cfg(windows)]\nmod raw") {
        Some(p) => match extract_after(&comm, "mod raw", p) {
            Some((_, t)) => raw = t,
            None => err.push("cannot extract windows `mod raw`".into()),
        },
        None => err.push(format!("cannot find windows `mod raw` in {}", comm_p)),
    }
    std::fs::write(out.join("win_raw.rs"), &raw).unwrap();

    let e = if err.is_empty() { "None".to_string() } else { format!("Some({:?})", err.join("; ")) };
    std::fs::write(out.join("extract_status.rs"), format!("pub const EXTRACT_ERROR: Option<&str> = {};\n", e)).unwrap();
}
