//! Engine `win`: `cfg(windows)` code of the crate that needs only `std`,
//! extracted textually from /repo at build time (build.rs) and compiled on
//! Linux against a UTF-16 shim.  Decides C20.
use proptest::prelude::*;
use serde::{Deserialize, Serialize};
use serde_json::Value;
use vh::runner::*;

include!(concat!(env!("OUT_DIR"), "/extract_status.rs"));

mod envblock;
mod wincomm;

#[allow(dead_code)]
mod shim {
    #[derive(Clone, Debug, PartialEq, Eq, Hash, Default)]
    pub struct OsString(pub Vec<u16>);
    pub type OsStr = OsString;
    impl OsString {
        pub fn new() -> OsString {
            OsString(vec![])
        }
        pub fn from_wide(w: &[u16]) -> OsString {
            OsString(w.to_vec())
        }
        pub fn encode_wide(&self) -> impl Iterator<Item = u16> + '_ {
            self.0.iter().copied()
        }
        pub fn is_empty(&self) -> bool {
            self.0.is_empty()
        }
        pub fn len(&self) -> usize {
            self.0.len()
        }
        pub fn as_os_str(&self) -> &OsStr {
            self
        }
        pub fn to_owned(&self) -> OsString {
            self.clone()
        }
    }
    pub trait OsStrExt {}
    pub trait OsStringExt {}
    pub mod win32 {
        pub const ERROR_BAD_PATHNAME: u32 = 161;
    }
}

#[allow(dead_code, unused_imports, clippy::all)]
mod extracted {
    use super::shim::win32;
    use super::shim::{OsStr, OsString};
    use std::collections::HashSet;
    use std::io;
    include!(concat!(env!("OUT_DIR"), "/win_popen.rs"));

    pub fn assemble(argv: Vec<Vec<u16>>) -> io::Result<Vec<u16>> {
        assemble_cmdline(argv.into_iter().map(OsString).collect()).map(|s| s.0)
    }
    /// accepts either form of the function: infallible (as pinned) or returning io::Result
    pub trait IntoBlock {
        fn into_block(self) -> io::Result<Vec<u16>>;
    }
    impl IntoBlock for Vec<u16> {
        fn into_block(self) -> io::Result<Vec<u16>> {
            Ok(self)
        }
    }
    impl IntoBlock for io::Result<Vec<u16>> {
        fn into_block(self) -> io::Result<Vec<u16>> {
            self
        }
    }
    pub fn env_block(env: &[(Vec<u16>, Vec<u16>)]) -> io::Result<Vec<u16>> {
        let e: Vec<(OsString, OsString)> = env.iter().map(|(k, v)| (OsString(k.clone()), OsString(v.clone()))).collect();
        format_env_block(&e).into_block()
    }
}

// ---------------------------------------------------------------------------
// Reference parser 1: Microsoft C runtime (2008+/UCRT) `parse_cmdline`
// ---------------------------------------------------------------------------
const SP: u16 = b' ' as u16;
const TAB: u16 = b'\t' as u16;
const QUOTE: u16 = b'"' as u16;
const BS: u16 = b'\\' as u16;

fn crt_parse(s: &[u16]) -> Vec<Vec<u16>> {
    let at = |i: usize| -> u16 { if i < s.len() { s[i] } else { 0 } };
    let mut args: Vec<Vec<u16>> = vec![];
    let mut p = 0usize;
    // program name: quotes toggle, no backslash processing
    let mut cur: Vec<u16> = vec![];
    let mut in_quotes = false;
    loop {
        let c = at(p);
        if c == QUOTE {
            in_quotes = !in_quotes;
            p += 1;
            continue;
        }
        if c == 0 || (!in_quotes && (c == SP || c == TAB)) {
            if c != 0 {
                p += 1;
            }
            break;
        }
        cur.push(c);
        p += 1;
    }
    args.push(cur);
    let mut in_quotes = false;
    loop {
        while at(p) == SP || at(p) == TAB {
            p += 1;
        }
        if at(p) == 0 {
            break;
        }
        let mut cur: Vec<u16> = vec![];
        loop {
            let mut copy = true;
            let mut numslash = 0usize;
            while at(p) == BS {
                p += 1;
                numslash += 1;
            }
            if at(p) == QUOTE {
                if numslash % 2 == 0 {
                    if in_quotes && at(p + 1) == QUOTE {
                        p += 1; // "" inside a quoted part: literal quote
                    } else {
                        copy = false;
                        in_quotes = !in_quotes;
                    }
                }
                numslash /= 2;
            }
            for _ in 0..numslash {
                cur.push(BS);
            }
            let c = at(p);
            if c == 0 || (!in_quotes && (c == SP || c == TAB)) {
                break;
            }
            if copy {
                cur.push(c);
            }
            p += 1;
        }
        args.push(cur);
    }
    args
}

// ---------------------------------------------------------------------------
// Reference parser 2: CommandLineToArgvW (2n / 2n+1 backslash rule, quote
// counting; program name by the simple rule)
// ---------------------------------------------------------------------------
fn cltaw_parse(s: &[u16]) -> Vec<Vec<u16>> {
    let at = |i: usize| -> u16 { if i < s.len() { s[i] } else { 0 } };
    let mut args: Vec<Vec<u16>> = vec![];
    let mut p = 0usize;
    let mut cur: Vec<u16> = vec![];
    if at(p) == QUOTE {
        p += 1;
        while at(p) != 0 && at(p) != QUOTE {
            cur.push(at(p));
            p += 1;
        }
        if at(p) == QUOTE {
            p += 1;
        }
    } else {
        while at(p) != 0 && at(p) != SP && at(p) != TAB {
            cur.push(at(p));
            p += 1;
        }
    }
    args.push(cur);
    while at(p) == SP || at(p) == TAB {
        p += 1;
    }
    if at(p) == 0 {
        return args;
    }
    let mut cur: Vec<u16> = vec![];
    let mut qcount = 0u32;
    let mut bcount = 0usize;
    while at(p) != 0 {
        let c = at(p);
        if (c == SP || c == TAB) && qcount == 0 {
            args.push(std::mem::take(&mut cur));
            bcount = 0;
            while at(p) == SP || at(p) == TAB {
                p += 1;
            }
            if at(p) == 0 {
                return args;
            }
        } else if c == BS {
            cur.push(c);
            p += 1;
            bcount += 1;
        } else if c == QUOTE {
            if bcount % 2 == 0 {
                let keep = cur.len() - bcount / 2;
                cur.truncate(keep);
                qcount += 1;
            } else {
                let keep = cur.len() - bcount / 2 - 1;
                cur.truncate(keep);
                cur.push(QUOTE);
            }
            p += 1;
            bcount = 0;
            while at(p) == QUOTE {
                qcount += 1;
                if qcount == 3 {
                    cur.push(QUOTE);
                    qcount = 0;
                }
                p += 1;
            }
            if qcount == 2 {
                qcount = 0;
            }
        } else {
            cur.push(c);
            p += 1;
            bcount = 0;
        }
    }
    args.push(cur);
    args
}

fn w(s: &str) -> Vec<u16> {
    s.encode_utf16().collect()
}
fn show(v: &[u16]) -> String {
    format!("{:?}", String::from_utf16_lossy(v))
}
fn show_vec(v: &[Vec<u16>]) -> String {
    format!("[{}]", v.iter().map(|a| show(a)).collect::<Vec<_>>().join(", "))
}

/// Microsoft's documented examples ("Parsing C command-line arguments").
fn pin_reference_parsers() -> Result<(), String> {
    let both: &[(&str, &[&str])] = &[
        (r#"prog "a b c" d e"#, &["prog", "a b c", "d", "e"]),
        (r#"prog "ab\"c" "\\" d"#, &["prog", "ab\"c", "\\", "d"]),
        (r#"prog a\\\b d"e f"g h"#, &["prog", r"a\\\b", "de fg", "h"]),
        (r#"prog a\\\"b c d"#, &["prog", r#"a\"b"#, "c", "d"]),
        (r#"prog a\\\\"b c" d e"#, &["prog", r"a\\b c", "d", "e"]),
        (r#""my prog" "" x"#, &["my prog", "", "x"]),
        (r#"prog """#, &["prog", ""]),
        ("prog  \t a", &["prog", "a"]),
    ];
    for (line, want) in both {
        let want: Vec<Vec<u16>> = want.iter().map(|s| w(s)).collect();
        for (name, got) in [("crt", crt_parse(&w(line))), ("CommandLineToArgvW", cltaw_parse(&w(line)))] {
            if got != want {
                return Err(format!("reference parser {} disagrees with documented example {:?}: got {}", name, line, show_vec(&got)));
            }
        }
    }
    let got = crt_parse(&w(r#"prog a"b"" c d"#));
    if got != vec![w("prog"), w("ab\" c d")] {
        return Err(format!("crt reference parser: documented example a\"b\"\" c d gives {}", show_vec(&got)));
    }
    Ok(())
}

// ---------------------------------------------------------------------------
// Cases and oracle
// ---------------------------------------------------------------------------

#[derive(Clone, Debug, Serialize, Deserialize)]
struct Case {
    /// UTF-16 code units per argument (argv[0] first)
    argv: Vec<Vec<u16>>,
}

const ALPHA: [u16; 7] = [b'a' as u16, b' ' as u16, b'\t' as u16, b'"' as u16, b'\\' as u16, b'\n' as u16, 0xe9];

fn features(argv: &[Vec<u16>]) -> String {
    let mut f = String::new();
    let mut has = [false; 9];
    for a in &argv[1..] {
        if a.is_empty() {
            has[0] = true;
        }
        for (i, c) in a.iter().enumerate() {
            match *c {
                SP | TAB => has[1] = true,
                QUOTE => {
                    has[2] = true;
                    if i > 0 && a[i - 1] == BS {
                        has[3] = true;
                    }
                }
                BS => {
                    if i + 1 == a.len() {
                        has[4] = true;
                    } else {
                        has[5] = true;
                    }
                }
                0x0a | 0x0b => has[6] = true,
                c if c > 127 => has[7] = true,
                _ => {}
            }
        }
    }
    if argv.len() > 2 {
        has[8] = true;
    }
    for (i, n) in ["empty", "blank", "quote", "bs-quote", "bs-end", "bs", "nl", "nonascii", "multi"].iter().enumerate() {
        if has[i] {
            if !f.is_empty() {
                f.push('+');
            }
            f.push_str(n);
        }
    }
    f
}

fn judge(case: &Case, rep: &mut CaseReport) -> CaseResult {
    let argv = &case.argv;
    let has_nul = argv.iter().any(|a| a.contains(&0));
    let res = std::panic::catch_unwind(|| extracted::assemble(argv.clone()));
    let res = match res {
        Ok(r) => r,
        Err(_) => return Err(Fail::new("C20:panic", format!("assemble_cmdline panicked for {}", show_vec(argv)))),
    };
    if has_nul {
        rep.nontrivial("nul-rejected");
        return match res {
            Err(_) => Ok(()),
            Ok(line) => Err(Fail::new("C20:nul-accepted", format!("argument containing NUL accepted: {} -> {}", show_vec(argv), show(&line)))),
        };
    }
    let line = match res {
        Ok(l) => l,
        Err(e) => return Err(Fail::new("C20:valid-rejected", format!("{} rejected: {}", show_vec(argv), e))),
    };
    let f = features(argv);
    // non-trivial: something needs quoting / escaping or is empty
    if ["empty", "blank", "quote", "bs-end", "nl"].iter().any(|k| f.contains(k)) {
        rep.nontrivial(f.clone());
    }
    let a = crt_parse(&line);
    if &a != argv {
        let what = mismatch_kind(argv, &a);
        return Err(Fail::new(
            format!("C20:crt:{}", what),
            format!("argv {} -> cmdline {} -> C runtime parses {}", show_vec(argv), show(&line), show_vec(&a)),
        ));
    }
    let b = cltaw_parse(&line);
    if &b != argv {
        let what = mismatch_kind(argv, &b);
        return Err(Fail::new(
            format!("C20:cltaw:{}", what),
            format!("argv {} -> cmdline {} -> CommandLineToArgvW parses {}", show_vec(argv), show(&line), show_vec(&b)),
        ));
    }
    Ok(())
}

fn mismatch_kind(want: &[Vec<u16>], got: &[Vec<u16>]) -> &'static str {
    if want.len() != got.len() {
        if want.iter().any(|a| a.is_empty()) {
            return "argc-empty-arg";
        }
        return "argc";
    }
    for (x, y) in want.iter().zip(got) {
        if x != y {
            let nb = |v: &[u16]| v.iter().filter(|c| **c == BS).count();
            let nq = |v: &[u16]| v.iter().filter(|c| **c == QUOTE).count();
            if nb(x) != nb(y) {
                return "backslashes";
            }
            if nq(x) != nq(y) {
                return "quotes";
            }
            return "content";
        }
    }
    "other"
}

fn all_strings(alpha: &[u16], maxlen: usize) -> Vec<Vec<u16>> {
    let mut out: Vec<Vec<u16>> = vec![vec![]];
    let mut frontier: Vec<Vec<u16>> = vec![vec![]];
    for _ in 0..maxlen {
        let mut next = vec![];
        for s in &frontier {
            for c in alpha {
                let mut t = s.clone();
                t.push(*c);
                next.push(t);
            }
        }
        out.extend(next.iter().cloned());
        frontier = next;
    }
    out
}

fn arg_strategy() -> impl Strategy<Value = Vec<u16>> {
    // weighted toward backslash runs before quotes and at the end
    let piece = prop_oneof![
        4 => prop::sample::select(vec![b'a' as u16, b'b' as u16, 0xe9, 0x4e2d, b'-' as u16, b'=' as u16]).prop_map(|c| vec![c]),
        3 => prop::sample::select(vec![SP, TAB, 0x0a, 0x0b]).prop_map(|c| vec![c]),
        // ordinary characters whose low byte is one of the special ASCII characters
        // (or NUL): a code unit must be compared as a whole
        2 => prop::sample::select(vec![0x0122u16, 0x0422, 0x2022, 0x015c, 0x305c, 0x0120, 0x0109, 0x010a, 0x010b, 0x0100, 0x3000, 0xdc22, 0xd85c, 0xff02, 0xff3c]).prop_map(|c| vec![c]),
        1 => (0x80u16..=0xffff).prop_map(|c| vec![c]),
        3 => Just(vec![QUOTE]),
        3 => (1usize..5).prop_map(|n| vec![BS; n]),
        3 => (1usize..5).prop_map(|n| { let mut v = vec![BS; n]; v.push(QUOTE); v }),
        1 => Just(vec![QUOTE, QUOTE]),
    ];
    (prop::collection::vec(piece, 0..12), 0usize..4).prop_map(|(ps, tail)| {
        let mut v: Vec<u16> = ps.into_iter().flatten().collect();
        v.truncate(40);
        if tail == 3 {
            v.push(BS);
        }
        v
    })
}

fn argv0_strategy() -> impl Strategy<Value = Vec<u16>> {
    // file-name-like: no quote; no trailing backslash when it contains blanks
    prop::collection::vec(prop::sample::select(vec![b'p' as u16, b'r' as u16, b'.' as u16, b'\\' as u16, b':' as u16, b' ' as u16, 0xe9, b'_' as u16]), 1..12).prop_map(|mut v| {
        if v.contains(&SP) {
            while v.last() == Some(&BS) {
                v.pop();
            }
            if v.is_empty() || v.iter().all(|c| *c == SP) {
                v = vec![b'p' as u16];
            }
        }
        v
    })
}

fn case_strategy() -> impl Strategy<Value = Case> {
    (argv0_strategy(), prop::collection::vec(arg_strategy(), 1..8)).prop_map(|(a0, mut rest)| {
        let mut argv = vec![a0];
        argv.append(&mut rest);
        Case { argv }
    })
}

fn worker(ctx: &Ctx) {
    if let Some(e) = EXTRACT_ERROR {
        ctx.inconclusive(format!("extraction failed: {}", e));
        return;
    }
    if let Err(e) = pin_reference_parsers() {
        ctx.inconclusive(e);
        return;
    }
    let prog = w("prog");
    // exhaustive part, partitioned over workers
    let l1 = ctx.tier.pick(5, 6);
    let l2 = ctx.tier.pick(3, 4);
    let singles = all_strings(&ALPHA, l1);
    let mut idx = 0usize;
    let mut stop = false;
    for s in &singles {
        idx += 1;
        if idx % ctx.nworkers != ctx.worker {
            continue;
        }
        let case = Case { argv: vec![prog.clone(), s.clone()] };
        if !ctx.run_case("win-exhaustive", &case, |rep| judge(&case, rep)) {
            stop = true;
            break;
        }
    }
    if !stop {
        let small = all_strings(&ALPHA, l2);
        'o: for a in &small {
            for b in &small {
                idx += 1;
                if idx % ctx.nworkers != ctx.worker {
                    continue;
                }
                let case = Case { argv: vec![prog.clone(), a.clone(), b.clone()] };
                if !ctx.run_case("win-exhaustive", &case, |rep| judge(&case, rep)) {
                    break 'o;
                }
            }
        }
        // NUL anywhere: all strings up to length 3 over alphabet + NUL that contain NUL
        let mut alpha_nul = ALPHA.to_vec();
        alpha_nul.push(0);
        for s in all_strings(&alpha_nul, 3) {
            if !s.contains(&0) {
                continue;
            }
            idx += 1;
            if idx % ctx.nworkers != ctx.worker {
                continue;
            }
            for pos in 0..2 {
                let case = if pos == 0 { Case { argv: vec![prog.clone(), s.clone()] } } else { Case { argv: vec![prog.clone(), w("x"), s.clone()] } };
                ctx.run_case("win-exhaustive", &case, |rep| judge(&case, rep));
            }
        }
    }
    // random part
    let n = ctx.tier.pick(20_000, 1_000_000);
    ctx.explore("win-random", "c20-random", case_strategy(), n, 4096, |c, rep| judge(c, rep));
}

fn replay(_ctx: &Ctx, _engine: &str, case: &Value) -> CaseResult {
    let c: Case = serde_json::from_value(case.clone()).map_err(|e| Fail::new("C20:bad-replay-file", e.to_string()))?;
    let mut rep = CaseReport::default();
    let line = extracted::assemble(c.argv.clone());
    println!("argv     = {}", show_vec(&c.argv));
    match &line {
        Ok(l) => {
            println!("cmdline  = {}", show(l));
            println!("crt      = {}", show_vec(&crt_parse(l)));
            println!("cltaw    = {}", show_vec(&cltaw_parse(l)));
        }
        Err(e) => println!("cmdline  = Err({})", e),
    }
    judge(&c, &mut rep)
}

static C20: PropDef = PropDef {
    id: "C20",
    level: "exploration",
    rule: "argv vectors [prog, s] for every string s up to length 5 (thorough 6) over {a, space, tab, \", \\, newline, e-acute}, all pairs (s1, s2) up to length 3 (4), all strings up to length 3 over that alphabet plus NUL containing a NUL (must be rejected), and random vectors of 1..7 arguments of length 0..40 weighted to backslash runs before quotes / at the end, with ordinary characters drawn from all of UTF-16 (lone surrogates included) and weighted to code units whose low byte equals a special ASCII character or NUL. Each is passed to the crate's assemble_cmdline (extracted from /repo/src/popen.rs at build time) and the result is parsed by two independent reference implementations of Microsoft's rules (C runtime 2008+, CommandLineToArgvW); both must return the original vector. Non-trivial = some argument is empty or contains a blank, quote, newline or trailing backslash; distinct = distinct argument vectors among those.",
    assumptions: &[
        "no Windows here: CreateProcessW and the real CRT are not run; the claim is about the string under Microsoft's published parsing rules",
        "reference parsers are pinned to Microsoft's documented examples at the start of every run",
        "argv[0] is drawn from a file-name-like alphabet (no quote, no trailing backslash when it contains blanks)",
    ],
    engines: "win",
    workers: |_| 16,
    worker,
    replay,
    exhaustive: false,
};

fn main() {
    vh::interpose::init();
    let args: Vec<String> = std::env::args().collect();
    // secondary stages for properties whose main check lives in `verif`
    if args.get(1).map(|s| s.as_str()) == Some("stage") && args.get(2).map(|s| s.as_str()) == Some("wincomm") {
        let prop = args.get(3).cloned().unwrap_or_else(|| "C02".into());
        let tier = args.get(4).cloned().unwrap_or_else(|| "quick".into());
        std::process::exit(wincomm::stage(&prop, &tier));
    }
    if args.get(1).map(|s| s.as_str()) == Some("stage") && args.get(2).map(|s| s.as_str()) == Some("envblock") {
        let tier = args.get(3).cloned().unwrap_or_else(|| "quick".into());
        std::process::exit(envblock::stage(&tier));
    }
    if args.get(1).map(|s| s.as_str()) == Some("replay") && matches!(args.get(2).map(|s| s.as_str()), Some("C02") | Some("C03") | Some("C04") | Some("C06")) {
        let body: serde_json::Value = std::fs::read(&args[3]).ok().and_then(|b| serde_json::from_slice(&b).ok()).unwrap_or(serde_json::Value::Null);
        let r = if args[2] == "C06" { envblock::replay(&body["case"]) } else { wincomm::replay(&args[2], &body["case"]) };
        match r {
            Ok(()) => {
                println!("replay: case passes on this tree");
                std::process::exit(0)
            }
            Err(f) => {
                println!("VIOLATION property={} replay={}\n  signature: {}\n{}", args[2], args[3], f.signature, f.detail);
                std::process::exit(1)
            }
        }
    }
    std::process::exit(vh::cli::dispatch(&[&C20], &args));
}
