//! Secondary target of C06: the `cfg(windows)` environment-block builder
//! `format_env_block`, extracted textually and compiled against the UTF-16 shim.
//! Oracle: a reference model of "exactly the listed variables, the later of
//! duplicate names winning" under Windows' case-insensitive names (ASCII range,
//! as the crate implements it), the documented block format (NUL-terminated
//! `name=value` strings, the block itself terminated by one more NUL, i.e. it
//! always ends with two NULs), and "names or values containing NUL are rejected".
use proptest::prelude::*;
use proptest::strategy::ValueTree;
use proptest::test_runner::{Config, RngAlgorithm, RngSeed, TestRunner};
use serde_json::json;
use vh::runner::*;

type W = Vec<u16>;

fn upper(k: &[u16]) -> W {
    k.iter().map(|c| if *c < 128 { (*c as u8).to_ascii_uppercase() as u16 } else { *c }).collect()
}

fn model(env: &[(W, W)]) -> Vec<(W, W)> {
    let mut seen: std::collections::BTreeSet<W> = Default::default();
    let mut out = vec![];
    for (k, v) in env.iter().rev() {
        if seen.insert(upper(k)) {
            out.push((k.clone(), v.clone()));
        }
    }
    out.sort();
    out
}

pub fn judge(env: &[(W, W)], got: std::io::Result<W>) -> Result<(), Fail> {
    let show = |w: &W| String::from_utf16_lossy(w).replace('\0', "\\0");
    let case = || format!("env=[{}]", env.iter().map(|(k, v)| format!("{:?}={:?}", show(k), show(v))).collect::<Vec<_>>().join(", "));
    // a NUL in an entry that a later duplicate replaces never reaches the child:
    // rejecting it or not is the implementation's choice (the Unix side prunes first, too)
    let any_nul = env.iter().any(|(k, v)| k.contains(&0) || v.contains(&0));
    let has_nul = model(env).iter().any(|(k, v)| k.contains(&0) || v.contains(&0));
    let block = match got {
        Err(e) => {
            if any_nul {
                return Ok(());
            }
            return Err(Fail::new("C06:win_env:valid-environment-refused", format!("{}\n{}", e, case())));
        }
        Ok(b) => b,
    };
    if has_nul {
        return Err(Fail::new("C06:win_env:nul-accepted", format!("a name or value containing NUL was put into the block (it ends the string early, whatever follows becomes another variable)\n{}\nblock={:?}", case(), show(&block))));
    }
    if block.len() < 2 || block[block.len() - 1] != 0 || block[block.len() - 2] != 0 {
        return Err(Fail::new("C06:win_env:block-not-double-nul-terminated", format!("block of {} code units does not end with two NULs\n{}\nblock={:?}", block.len(), case(), show(&block))));
    }
    let mut entries: Vec<(W, W)> = vec![];
    if block.len() > 2 {
        for piece in block[..block.len() - 2].split(|c| *c == 0) {
            match piece.iter().position(|c| *c == b'=' as u16) {
                Some(p) => entries.push((piece[..p].to_vec(), piece[p + 1..].to_vec())),
                None => return Err(Fail::new("C06:win_env:malformed-entry", format!("entry {:?} has no '='\n{}", show(&piece.to_vec()), case()))),
            }
        }
    }
    entries.sort();
    let want = model(env);
    if entries != want {
        let miss: Vec<String> = want.iter().filter(|e| !entries.contains(e)).map(|(k, v)| format!("{}={}", show(k), show(v))).collect();
        let extra: Vec<String> = entries.iter().filter(|e| !want.contains(e)).map(|(k, v)| format!("{}={}", show(k), show(v))).collect();
        return Err(Fail::new("C06:win_env:wrong-variables", format!("missing {:?}, unexpected {:?}\n{}", miss, extra, case())));
    }
    Ok(())
}

pub fn env_strategy() -> impl Strategy<Value = Vec<(W, W)>> {
    // names: ASCII letters in both cases (so that case variants collide), digits, '_', two non-ASCII letters in one case only
    let nch = prop_oneof![Just(b'a' as u16), Just(b'A' as u16), Just(b'b' as u16), Just(b'B' as u16), Just(b'z' as u16), Just(b'Z' as u16), Just(b'_' as u16), Just(b'1' as u16), Just(0xe9u16), Just(0x4e2du16)];
    let name = prop::collection::vec(nch, 1..4);
    let vch = prop_oneof![6 => 1u16..128, 2 => 128u16..0xd800, 1 => 0xd800u16..0xe000, 1 => Just(b'=' as u16), 1 => Just(b' ' as u16)];
    let value = prop::collection::vec(vch, 0..12);
    (prop::collection::vec((name, value), 0..12), prop_oneof![7 => Just(None), 1 => (any::<prop::sample::Index>(), any::<bool>(), any::<prop::sample::Index>()).prop_map(Some)]).prop_map(|(mut env, nul)| {
        if let Some((which, in_name, at)) = nul {
            if !env.is_empty() {
                let i = which.index(env.len());
                let s = if in_name { &mut env[i].0 } else { &mut env[i].1 };
                let p = at.index(s.len() + 1);
                s.insert(p, 0);
            }
        }
        env
    })
}

/// `wincheck stage envblock <quick|thorough>`
pub fn stage(tier: &str) -> i32 {
    if let Some(e) = crate::EXTRACT_ERROR {
        eprintln!("win_env stage skipped: {}", e);
        return 0;
    }
    let seed: u64 = std::env::var("VERIF_SEED").ok().and_then(|s| s.trim().parse::<i128>().ok()).map(|v| v as u64).unwrap_or(1);
    let n: u32 = if tier == "thorough" { 2_000_000 } else { 100_000 };
    let t0 = std::time::Instant::now();
    let cfg = Config { cases: n, max_shrink_iters: 2000, failure_persistence: None, rng_algorithm: RngAlgorithm::ChaCha, rng_seed: RngSeed::Fixed(mix(seed, fnv(b"envblock"))), ..Config::default() };
    let mut runner = TestRunner::new(cfg);
    let strat = env_strategy();
    let (mut done, mut dups, mut nuls, mut empties) = (0u64, 0u64, 0u64, 0u64);
    // fixed cases first: the empty environment, a single variable, case variants
    let fixed: Vec<Vec<(W, W)>> = vec![vec![], vec![(vec![b'A' as u16], vec![])], vec![(vec![b'a' as u16], vec![b'1' as u16]), (vec![b'A' as u16], vec![b'2' as u16])]];
    let mut failure: Option<(Vec<(W, W)>, Fail)> = None;
    for env in fixed {
        if let Err(f) = judge(&env, crate::extracted::env_block(&env)) {
            failure = Some((env, f));
            break;
        }
        done += 1;
    }
    if failure.is_none() {
        // proptest drives generation and shrinking
        let r = runner.run(&strat, |env| {
            match judge(&env, crate::extracted::env_block(&env)) {
                Ok(()) => Ok(()),
                Err(f) => Err(proptest::test_runner::TestCaseError::fail(format!("{}\u{1}{}", f.signature, f.detail))),
            }
        });
        // count classes on an identical second pass of the generator (cheap)
        let mut r2 = TestRunner::new(Config { cases: n, failure_persistence: None, rng_algorithm: RngAlgorithm::ChaCha, rng_seed: RngSeed::Fixed(mix(seed, fnv(b"envblock"))), ..Config::default() });
        for _ in 0..n.min(100_000) {
            let env = strat.new_tree(&mut r2).unwrap().current();
            done += 1;
            if env.is_empty() {
                empties += 1;
            }
            if env.iter().any(|(k, v)| k.contains(&0) || v.contains(&0)) {
                nuls += 1;
            }
            let mut s: std::collections::BTreeSet<W> = Default::default();
            if env.iter().any(|(k, _)| !s.insert(upper(k))) {
                dups += 1;
            }
        }
        if n > 100_000 {
            done += (n - 100_000) as u64;
        }
        if let Err(proptest::test_runner::TestError::Fail(reason, env)) = r {
            let msg = reason.message().to_string();
            let (sig, detail) = msg.split_once('\u{1}').map(|(a, b)| (a.to_string(), b.to_string())).unwrap_or((String::from("C06:win_env:failure"), msg.clone()));
            failure = Some((env, Fail::new(sig, detail)));
        }
    }
    let root = verif_root();
    let mut exit = 0;
    if let Some((env, f)) = &failure {
        let dir = root.join("replays").join("C06");
        std::fs::create_dir_all(&dir).ok();
        let path = dir.join(format!("{:016x}.json", fnv(f.signature.as_bytes())));
        let body = json!({"property": "C06", "signature": f.signature, "engine": "win_env", "detail": f.detail, "seed": seed, "case": env});
        std::fs::write(&path, serde_json::to_vec_pretty(&body).unwrap()).ok();
        println!("VIOLATION property=C06 replay={}", path.display());
        println!("  signature: {}", f.signature);
        for l in f.detail.lines().take(8) {
            println!("  {}", l);
        }
        exit = 1;
    }
    let ev = root.join("evidence").join("C06.json");
    if let Ok(b) = std::fs::read(&ev) {
        if let Ok(mut v) = serde_json::from_slice::<serde_json::Value>(&b) {
            v["coverage"]["win_env_block"] = json!({"what": "cfg(windows) format_env_block extracted from src/popen.rs, against a reference model of the environment block", "cases": done, "with_duplicate_names_modulo_ascii_case": dups, "with_nul": nuls, "empty_environment": empties + 1, "violations": if failure.is_some() { 1 } else { 0 }, "wall_s": t0.elapsed().as_secs_f64()});
            if let Some(e) = v["coverage"]["evaluations"].as_u64() {
                v["coverage"]["evaluations"] = json!(e + done);
            }
            if failure.is_some() {
                let prev = v["violations"].as_i64().unwrap_or(0);
                v["violations"] = json!(prev + 1);
            }
            std::fs::write(&ev, serde_json::to_vec_pretty(&v).unwrap()).ok();
        }
    }
    println!("win_env stage property=C06 cases={} duplicates={} with_nul={} violations={} wall_s={:.1}", done, dups, nuls, if failure.is_some() { 1 } else { 0 }, t0.elapsed().as_secs_f64());
    exit
}

pub fn replay(case: &serde_json::Value) -> CaseResult {
    let env: Vec<(W, W)> = serde_json::from_value(case.clone()).map_err(|e| Fail::new("bad-replay-file", e.to_string()))?;
    judge(&env, crate::extracted::env_block(&env))
}
