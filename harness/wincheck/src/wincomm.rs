//! Secondary target of C02/C03/C04: the `cfg(windows)` threaded RawCommunicator of
//! src/communicate.rs, extracted textually at build time, compiled on Linux
//! (it needs only std) and run over real kernel pipes against the scripted
//! helper child.  Same oracles as the real-process tier: exact bytes per
//! stream, size bound per read, continuity across reads, the child's report of
//! what it received.
use proptest::strategy::{Strategy, ValueTree};
use proptest::test_runner::{Config, RngAlgorithm, RngSeed, TestRunner};
use serde_json::json;
use std::os::unix::io::AsRawFd;
use std::time::{Duration, Instant};
use vh::props::realcomm::*;
use vh::real::*;
use vh::runner::*;

#[allow(dead_code, unused_imports, clippy::all)]
mod extracted {
    include!(concat!(env!("OUT_DIR"), "/win_raw.rs"));
    pub use raw::RawCommunicator;
}
use extracted::RawCommunicator;

fn run_case(scratch: &std::path::Path, prop: &str, case: &RealCase) -> Result<(), Fail> {
    let sc = Scratch::new(scratch, "wc");
    let report = sc.path("child.json");
    let helper = vchild_path();
    reap_all();
    let input = input_bytes(case);
    let (want_out, want_err) = expected(case, &input);
    let fail = |sig: &str, msg: String| -> CaseResult { Err(Fail::new(format!("{}:win_raw:{}", prop, sig), format!("{}\ncase={:?}", msg, case))) };
    let mut argv: Vec<std::ffi::OsString> = vec![helper.into_os_string()];
    argv.extend(script_args(case, &report).iter().map(|a| a.into()));
    let cfg = subprocess::PopenConfig { stdin: subprocess::Redirection::Pipe, stdout: subprocess::Redirection::Pipe, stderr: if case.err_piped { subprocess::Redirection::Pipe } else { subprocess::Redirection::File(std::fs::OpenOptions::new().write(true).open("/dev/null").unwrap()) }, ..Default::default() };
    let mut p = subprocess::Popen::create(&argv, cfg).map_err(|e| Fail::new(format!("{}:win_raw:spawn-error", prop), e.to_string()))?;
    for f in [&p.stdin, &p.stdout, &p.stderr].into_iter().flatten() {
        unsafe { libc::fcntl(f.as_raw_fd(), libc::F_SETPIPE_SZ, case.pipe_cap as libc::c_int) };
    }
    let mut comm = RawCommunicator::new(p.stdin.take(), p.stdout.take(), p.stderr.take(), Some(input.clone()));
    let mut got_out: Vec<u8> = vec![];
    let mut got_err: Vec<u8> = vec![];
    let mut size_limit: Option<usize> = None;
    let mut time_limit: Option<Duration> = None;
    let mut i = 0usize;
    loop {
        if let Some((s, t)) = case.limits.get(i) {
            if let Some(s) = s {
                size_limit = Some((*s).max(1) as usize);
            }
            if let Some(t) = t {
                time_limit = Some(Duration::from_millis(*t as u64));
            }
        } else {
            // drain: generous limits
            if size_limit.is_some() {
                size_limit = Some(1 << 20);
            }
            if time_limit.is_some() {
                time_limit = Some(Duration::from_secs(3600));
            }
        }
        i += 1;
        // without a time limit the guard deadline only keeps a broken tree from hanging the stage
        let deadline: Instant = Instant::now() + time_limit.unwrap_or(Duration::from_secs(600));
        let (err, (o, e)) = comm.read(Some(deadline), size_limit);
        let mut timed_out = false;
        if let Some(e) = err {
            if e.kind() == std::io::ErrorKind::TimedOut {
                let now = Instant::now();
                if time_limit.is_none() {
                    let _ = p.terminate();
                    return fail("harness-guard", "no read result within 600 s".into());
                }
                if now < deadline {
                    let _ = p.terminate();
                    return fail("timeout-early", format!("TimedOut reported {:?} before the limit {:?} had elapsed", deadline - now, time_limit));
                }
                timed_out = true;
            } else {
                let _ = p.terminate();
                return fail("error", e.to_string());
            }
        }
        if o.is_none() || e.is_some() != case.err_piped {
            return fail("stream-presence", format!("stdout present {}, stderr present {}", o.is_some(), e.is_some()));
        }
        let (o, e) = (o.unwrap_or_default(), e.unwrap_or_default());
        if let Some(l) = size_limit {
            if o.len() + e.len() > l {
                let _ = p.terminate();
                return fail("limit-exceeded", format!("read returned {}+{} bytes with size limit {}", o.len(), e.len(), l));
            }
        }
        let empty = o.is_empty() && e.is_empty();
        got_out.extend_from_slice(&o);
        got_err.extend_from_slice(&e);
        if !timed_out && (size_limit.is_none() || empty) {
            break;
        }
        if i > 200_000 {
            return fail("harness", "too many reads".into());
        }
    }
    drop(comm);
    let _ = p.wait();
    reap_all();
    if got_out != want_out {
        let d = got_out.iter().zip(&want_out).position(|(a, b)| a != b).unwrap_or(got_out.len().min(want_out.len()));
        return fail("stdout-differs", format!("stdout: {} bytes returned, child wrote {}; first difference at {}", got_out.len(), want_out.len(), d));
    }
    if case.err_piped && got_err != want_err {
        let d = got_err.iter().zip(&want_err).position(|(a, b)| a != b).unwrap_or(got_err.len().min(want_err.len()));
        return fail("stderr-differs", format!("stderr: {} bytes returned, child wrote {}; first difference at {}", got_err.len(), want_err.len(), d));
    }
    child_report_check(&report, &input, case, &fail)
}

/// C04: a child that writes for as long as it is read; the read must come back
/// with TimedOut, not before the limit and not unboundedly after it.
fn run_flood(prop: &str, limit_ms: u64, both: bool) -> Result<(), Fail> {
    reap_all();
    let helper = vchild_path();
    let fail = |sig: &str, msg: String| -> CaseResult { Err(Fail::new(format!("{}:win_raw:{}", prop, sig), format!("{}\ncase=flood limit_ms={} both_streams={}", msg, limit_ms, both))) };
    let argv: Vec<std::ffi::OsString> = if both {
        vec!["/bin/sh".into(), "-c".into(), format!("\"{0}\" flood 2 & exec \"{0}\" flood 1", helper.display()).into()]
    } else {
        vec![helper.into_os_string(), "flood".into(), "1".into()]
    };
    let cfg = subprocess::PopenConfig { stdout: subprocess::Redirection::Pipe, stderr: if both { subprocess::Redirection::Pipe } else { subprocess::Redirection::None }, setpgid: true, ..Default::default() };
    let mut p = subprocess::Popen::create(&argv, cfg).map_err(|e| Fail::new(format!("{}:win_raw:spawn-error", prop), e.to_string()))?;
    let pid = p.pid().unwrap_or(0) as i32;
    let mut comm = RawCommunicator::new(None, p.stdout.take(), p.stderr.take(), None);
    let (tx, rx) = std::sync::mpsc::channel();
    let limit = Duration::from_millis(limit_ms);
    let h = std::thread::spawn(move || {
        let deadline = Instant::now() + limit;
        let (err, (o, e)) = comm.read(Some(deadline), None);
        let _ = tx.send((err.map(|e| e.kind()), o.map(|v| v.len()).unwrap_or(0) + e.map(|v| v.len()).unwrap_or(0), Instant::now() >= deadline, Instant::now().saturating_duration_since(deadline)));
        comm
    });
    // generous: "bounded" here means seconds, the defect class it looks for is "never"
    let got = rx.recv_timeout(limit + Duration::from_secs(5));
    unsafe { libc::kill(-pid, libc::SIGKILL) };
    let _ = p.wait();
    let comm = h.join();
    drop(comm);
    reap_all();
    match got {
        Err(_) => fail("overrun-unbounded", format!("read with a time limit of {} ms had not returned 5 s after the limit while the child kept writing", limit_ms)),
        Ok((kind, _n, after_deadline, _late)) => {
            if kind != Some(std::io::ErrorKind::TimedOut) {
                return fail("flood-no-timeout", format!("read returned {:?} although the child never stops writing", kind));
            }
            if !after_deadline {
                return fail("timeout-early", "TimedOut before the limit had elapsed".into());
            }
            Ok(())
        }
    }
}

/// `wincheck stage wincomm <C02|C03|C04> <quick|thorough>`
pub fn stage(prop: &str, tier: &str) -> i32 {
    if let Some(e) = crate::EXTRACT_ERROR {
        eprintln!("win_raw stage skipped: {}", e);
        return 0;
    }
    let prop_s: &'static str = match prop {
        "C03" => "C03",
        "C04" => "C04",
        _ => "C02",
    };
    let seed: u64 = std::env::var("VERIF_SEED").ok().and_then(|s| s.trim().parse::<i128>().ok()).map(|v| v as u64).unwrap_or(1);
    let n: u32 = if tier == "thorough" { 6000 } else { 400 };
    let tmp = std::env::var("TMPDIR").unwrap_or_else(|_| "/tmp".into());
    let scratch = std::path::PathBuf::from(tmp).join(format!("verif-wincomm-{}-{}", prop, std::process::id()));
    std::fs::create_dir_all(&scratch).ok();
    let t0 = Instant::now();
    let cfg = Config { cases: n, max_shrink_iters: 100, failure_persistence: None, rng_algorithm: RngAlgorithm::ChaCha, rng_seed: RngSeed::Fixed(mix(seed, fnv(format!("wincomm-{}", prop).as_bytes()))), ..Config::default() };
    let mut runner = TestRunner::new(cfg);
    let strat = case_strategy(prop_s);
    let mut done = 0u32;
    let mut limited = 0u32;
    let mut failure: Option<(serde_json::Value, Fail)> = None;
    let mut floods = 0u32;
    for k in 0..n {
        let case = strat.new_tree(&mut runner).unwrap().current();
        if prop_s == "C04" && k % 16 == 0 {
            // every 16th case is a never-ending writer (limit and stream count from the generated case)
            let limit_ms = [0u64, 3, 30, 150][case.input_seed as usize % 4];
            floods += 1;
            if let Err(f) = run_flood(prop_s, limit_ms, case.err_piped) {
                failure = Some((json!({"flood": {"limit_ms": limit_ms, "both": case.err_piped}}), f));
                break;
            }
        }
        if !case.limits.is_empty() {
            limited += 1;
        }
        match run_case(&scratch, prop_s, &case) {
            Ok(()) => done += 1,
            Err(f) => {
                failure = Some((serde_json::to_value(&case).unwrap(), f));
                break;
            }
        }
    }
    let _ = std::fs::remove_dir_all(&scratch);
    let root = verif_root();
    let mut exit = 0;
    if let Some((case, f)) = &failure {
        let dir = root.join("replays").join(prop);
        std::fs::create_dir_all(&dir).ok();
        let path = dir.join(format!("{:016x}.json", fnv(f.signature.as_bytes())));
        let body = json!({"property": prop, "signature": f.signature, "engine": "win_raw", "detail": f.detail, "seed": seed, "case": case});
        std::fs::write(&path, serde_json::to_vec_pretty(&body).unwrap()).ok();
        println!("VIOLATION property={} replay={}", prop, path.display());
        println!("  signature: {}", f.signature);
        for l in f.detail.lines().take(10) {
            println!("  {}", l);
        }
        exit = 1;
    }
    // merge into the evidence written by the main stage
    let ev = root.join("evidence").join(format!("{}.json", prop));
    if let Ok(b) = std::fs::read(&ev) {
        if let Ok(mut v) = serde_json::from_slice::<serde_json::Value>(&b) {
            v["coverage"]["win_raw"] = json!({"what": "cfg(windows) threaded RawCommunicator extracted from src/communicate.rs, run over real pipes", "cases": done, "never_ending_writers": floods, "with_size_limits": limited, "violations": if failure.is_some() { 1 } else { 0 }, "wall_s": t0.elapsed().as_secs_f64()});
            if let Some(e) = v["coverage"]["evaluations"].as_u64() {
                v["coverage"]["evaluations"] = json!(e + done as u64);
            }
            if failure.is_some() {
                let prev = v["violations"].as_i64().unwrap_or(0);
                v["violations"] = json!(prev + 1);
            }
            std::fs::write(&ev, serde_json::to_vec_pretty(&v).unwrap()).ok();
        }
    }
    println!("win_raw stage property={} cases={} with_size_limits={} violations={} wall_s={:.1}", prop, done, limited, if failure.is_some() { 1 } else { 0 }, t0.elapsed().as_secs_f64());
    exit
}

/// replay of a win_raw case
pub fn replay(prop: &str, case: &serde_json::Value) -> CaseResult {
    let prop_s: &'static str = match prop {
        "C03" => "C03",
        "C04" => "C04",
        _ => "C02",
    };
    if case.get("flood").is_some() {
        return run_flood(prop_s, case["flood"]["limit_ms"].as_u64().unwrap_or(0), case["flood"]["both"].as_bool().unwrap_or(false));
    }
    let c: RealCase = serde_json::from_value(case.clone()).map_err(|e| Fail::new("bad-replay-file", e.to_string()))?;
    let tmp = std::env::var("TMPDIR").unwrap_or_else(|_| "/tmp".into());
    let scratch = std::path::PathBuf::from(tmp).join(format!("verif-wincomm-replay-{}", std::process::id()));
    std::fs::create_dir_all(&scratch).ok();
    let r = run_case(&scratch, prop_s, &c);
    let _ = std::fs::remove_dir_all(&scratch);
    r
}
