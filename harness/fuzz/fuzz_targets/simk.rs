#![no_main]
use libfuzzer_sys::fuzz_target;

fuzz_target!(|data: &[u8]| {
    vh::fuzzdec::fuzz_simk_one(data);
});
