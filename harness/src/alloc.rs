//! Counting global allocator: counts allocations made in a forked child
//! between fork and exec into the shared page (see interpose.rs).
use crate::interpose::{shared, ALLOC_ARMED};
use std::alloc::{GlobalAlloc, Layout, System};
use std::sync::atomic::Ordering::*;

pub struct Probe;

#[inline]
fn note(size: usize) {
    if ALLOC_ARMED.load(Relaxed) {
        let s = shared();
        if s.child_allocs.fetch_add(1, SeqCst) == 0 {
            s.child_first_alloc_size.store(size as u64, SeqCst);
        }
        s.child_alloc_bytes.fetch_add(size as u64, SeqCst);
    }
}

unsafe impl GlobalAlloc for Probe {
    unsafe fn alloc(&self, l: Layout) -> *mut u8 {
        note(l.size());
        System.alloc(l)
    }
    unsafe fn alloc_zeroed(&self, l: Layout) -> *mut u8 {
        note(l.size());
        System.alloc_zeroed(l)
    }
    unsafe fn realloc(&self, p: *mut u8, l: Layout, n: usize) -> *mut u8 {
        note(n);
        System.realloc(p, l, n)
    }
    unsafe fn dealloc(&self, p: *mut u8, l: Layout) {
        if ALLOC_ARMED.load(Relaxed) {
            shared().child_deallocs.fetch_add(1, SeqCst);
        }
        System.dealloc(p, l)
    }
}

#[global_allocator]
static GLOBAL: Probe = Probe;
