//! Command line shared by the harness binaries.
use crate::runner::*;
use std::path::Path;

fn usage() -> i32 {
    eprintln!("usage: <bin> check <id> [quick|thorough] | replay <id> <path> | worker ... | list");
    2
}

pub fn dispatch(defs: &[&PropDef], args: &[String]) -> i32 {
    if args.len() < 2 {
        return usage();
    }
    let find = |id: &str| defs.iter().find(|d| d.id == id).copied();
    match args[1].as_str() {
        "list" => {
            for d in defs {
                println!("{}", d.id);
            }
            0
        }
        "check" => {
            if args.len() < 3 {
                return usage();
            }
            let def = match find(&args[2]) {
                Some(d) => d,
                None => {
                    eprintln!("unknown property {}", args[2]);
                    return 2;
                }
            };
            let tier_s = args.get(3).cloned().or_else(|| std::env::var("VERIF_TIER").ok()).unwrap_or_else(|| "quick".into());
            let tier = if tier_s == "thorough" { Tier::Thorough } else { Tier::Quick };
            let seed: u64 = std::env::var("VERIF_SEED").ok().and_then(|s| s.trim().parse::<i128>().ok()).map(|v| v as u64).unwrap_or(1);
            check_main(def, tier, seed)
        }
        "worker" => {
            // worker <id> <tier> <seed> <idx> <n> <scratch>
            if args.len() < 8 {
                return usage();
            }
            let def = match find(&args[2]) {
                Some(d) => d,
                None => return 2,
            };
            let tier = if args[3] == "thorough" { Tier::Thorough } else { Tier::Quick };
            let seed: u64 = args[4].parse().unwrap_or(1);
            let idx: usize = args[5].parse().unwrap_or(0);
            let n: usize = args[6].parse().unwrap_or(1);
            worker_main(def, tier, seed, idx, n, Path::new(&args[7]))
        }
        "replay" => {
            if args.len() < 4 {
                return usage();
            }
            let def = match find(&args[2]) {
                Some(d) => d,
                None => return 2,
            };
            replay_main(def, &args[3])
        }
        _ => usage(),
    }
}
