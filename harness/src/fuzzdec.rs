//! Byte-level entry points for coverage-guided fuzzing (cargo-fuzz /
//! libFuzzer): the bytes are decoded with `arbitrary::Unstructured` into the
//! same case structures the proptest generators produce, run through the same
//! interpreters and judged by the same oracles.  A violation that is not a
//! listed known finding writes a replay file (if VERIF_FUZZ_OUT is set) and
//! panics, which libFuzzer records as a crash.
use crate::props::c0104 as c;
use crate::props::c0911 as p;
use crate::runner::{fnv, load_known, CaseReport, Fail, KnownFinding};
use crate::simk::{COp, Content, Flavour, SimCfg};
use crate::simproc::{ProcPlan, Reaction};
use arbitrary::{Result, Unstructured};
use std::sync::OnceLock;

fn pick<T: Copy>(u: &mut Unstructured, xs: &[T]) -> Result<T> {
    Ok(xs[u.int_in_range(0..=xs.len() - 1)?])
}

fn size(u: &mut Unstructured, cap: u32) -> Result<u32> {
    Ok(match u.int_in_range(0u8..=9)? {
        0 => 0,
        1 => 1,
        2 => 4095,
        3 => 4096,
        4 => 4097,
        5 => cap,
        6 => cap + 1,
        7 => 2 * cap + u.int_in_range(0u32..=5000)?,
        8 => u.int_in_range(0u32..=20000)?,
        _ => u.int_in_range(0u32..=200_000)?,
    })
}

fn chunk(u: &mut Unstructured) -> Result<u32> {
    Ok(match u.int_in_range(0u8..=6)? {
        0 => 1,
        1 => 7,
        2 => 512,
        3 => 4096,
        4 => 4097,
        5 => 65536,
        _ => u.int_in_range(1u32..=70000)?,
    })
}

fn cop(u: &mut Unstructured, cap: u32, allow_flood: bool) -> Result<COp> {
    let to = pick(u, &[1u8, 2])?;
    Ok(match u.int_in_range(0u8..=(if allow_flood { 10 } else { 9 }))? {
        0 => COp::ReadIn(chunk(u)?),
        1 => COp::ReadAll(chunk(u)?),
        2 => COp::Copy { n: chunk(u)?, to },
        3 => COp::Cat { to, chunk: chunk(u)? },
        4 | 5 => COp::Write { to, n: size(u, cap)? },
        6 => COp::Close(u.int_in_range(0u8..=2)?),
        7 => COp::Sleep(pick(u, &[1_000u64, 1_000_000, 50_000_000, 2_000_000_000, 26 * 86400 * 1_000_000_000])?),
        8 => COp::Exit,
        9 => COp::FloodUntilInput { to, chunk: chunk(u)?, need: 0 },
        _ => COp::Flood { to, chunk: chunk(u)? },
    })
}

pub fn simk_case(u: &mut Unstructured, forced: Option<c::Focus>) -> Result<(c::Focus, c::SimkCase)> {
    let focus = match forced {
        Some(f) => f,
        None => pick(u, &[c::Focus::C01, c::Focus::C02, c::Focus::C03, c::Focus::C04])?,
    };
    let streams = pick(u, &[1u8, 2, 3, 4, 5, 6, 7, 7, 7])?;
    let caps = [pick(u, &[4096u32, 8192, 16384, 65536, 1 << 20])?, pick(u, &[4096u32, 8192, 16384, 65536])?, pick(u, &[4096u32, 8192, 16384, 65536])?];
    let flavour = pick(u, &[Flavour::LinuxSlots, Flavour::LinuxSlots, Flavour::PosixBytes, Flavour::Stream])?;
    let content = pick(u, &[Content::Hash, Content::Utf8Multi, Content::AsciiInvalidMix])?;
    let allow_flood = focus == c::Focus::C04;
    let nops = u.int_in_range(0usize..=12)?;
    let mut script = vec![];
    for _ in 0..nops {
        script.push(cop(u, caps[1], allow_flood)?);
    }
    let finite = !script.iter().any(|o| matches!(o, COp::Flood { .. }));
    let cost = pick(u, &[1_000u32, 50_000, 1_000_000])?;
    let nreads = match focus {
        c::Focus::C01 | c::Focus::C02 => 1,
        _ => u.int_in_range(1usize..=8)?,
    };
    let mut reads = vec![];
    for i in 0..nreads {
        let size_l = match focus {
            c::Focus::C03 => Some(pick(u, &[1u32, 2, 4095, 4096, 4097, 10_000, 1 << 30])?),
            c::Focus::C04 => {
                if u.ratio(1u8, 5u8)? {
                    Some(pick(u, &[1u32, 4096, 20000])?)
                } else {
                    None
                }
            }
            _ => {
                if u.ratio(1u8, 6u8)? {
                    Some(pick(u, &[1u32, 4096, 8192, 12288, 1 << 30])?)
                } else {
                    None
                }
            }
        };
        let mut time = if focus == c::Focus::C04 {
            Some(pick(u, &[0u64, 500, 999_000, 5_000_000, 100_000_000, 10_000_000_000, (1u64 << 31) * 1_000_000 + 7, 30 * 86400 * 1_000_000_000, u64::MAX])?)
        } else {
            None
        };
        if !finite {
            let t = time.unwrap_or(5_000_000).min(2000 * cost as u64);
            time = Some(t);
        } else if i > 0 && focus == c::Focus::C04 && u.ratio(1u8, 4u8)? {
            time = None;
        }
        reads.push(c::ReadSpec { size: if i == 0 && focus == c::Focus::C03 && size_l.is_none() { Some(4096) } else { size_l }, time_ns: time });
    }
    if focus == c::Focus::C03 && u.ratio(1u8, 4u8)? {
        // a steady run of equally limited reads (input-delivery oracle)
        let last = reads.last().cloned().unwrap();
        let k = u.int_in_range(24usize..=48)?;
        reads.extend(std::iter::repeat(last).take(k));
    }
    let nsched = u.int_in_range(0usize..=60)?;
    let mut sched = vec![];
    for _ in 0..nsched {
        sched.push(pick(u, &[0u8, 0, 1, 1, 2, 3, 40])?);
    }
    let tail = pick(u, &[0u8, 1, 2, 4])?;
    let mut short = |u: &mut Unstructured| -> Result<Vec<u16>> {
        if focus == c::Focus::C01 || u.ratio(1u8, 2u8)? {
            return Ok(vec![]);
        }
        let n = u.int_in_range(0usize..=40)?;
        let mut v = vec![];
        for _ in 0..n {
            v.push(pick(u, &[0u16, 0, 1, 1, 7, 100, 4095])?);
        }
        Ok(v)
    };
    let sr = short(u)?;
    let sw = short(u)?;
    let mut eintr = vec![];
    if focus == c::Focus::C04 && u.ratio(1u8, 3u8)? {
        for _ in 0..u.int_in_range(1usize..=12)? {
            eintr.push(pick(u, &[0u8, 0, 1, 20, 200])?);
        }
    }
    let ilen = if streams & 1 != 0 { size(u, caps[0])? } else { 0 };
    let string_variant = focus == c::Focus::C02 && reads.len() == 1 && reads[0].size.is_none() && u.ratio(1u8, 5u8)?;
    let seed = u.int_in_range(0u32..=999)?;
    let wait_before_drop = u.ratio(1u8, 2u8)? && focus == c::Focus::C01;
    Ok((
        focus,
        c::SimkCase {
            template: "fuzz".into(),
            sim: SimCfg { streams, caps, flavour, script, content, sched, sched_tail: tail, short_read: sr, short_write: sw, cost_ns: cost, eintr },
            input: c::InputSpec { len: ilen, seed, kind: content },
            reads,
            string_variant,
            finite,
            wait_before_drop,
        },
    ))
}

pub fn proc_case(u: &mut Unstructured, forced: Option<p::Focus>) -> Result<(p::Focus, p::ProcCase)> {
    let focus = match forced {
        Some(f) => f,
        None => pick(u, &[p::Focus::C09, p::Focus::C10, p::Focus::C11])?,
    };
    let delay = |u: &mut Unstructured| -> Result<u64> { pick(u, &[0u64, 1_000, 3_000_000, 150_000_000]) };
    let reaction = |u: &mut Unstructured| -> Result<Reaction> {
        Ok(match u.int_in_range(0u8..=5)? {
            0 | 1 | 2 => Reaction::Die(delay(u)?),
            3 | 4 => Reaction::Ignore,
            _ => Reaction::Exit(u.arbitrary()?, delay(u)?),
        })
    };
    let exit_after = match u.int_in_range(0u8..=6)? {
        0 => None,
        1 => Some(0),
        2 => Some(u.int_in_range(0u64..=200_000_000)?),
        3 => Some((1u64 << u.int_in_range(0u32..=8)?) * 1_000_000 + u.int_in_range(0u64..=2000)? * 1000),
        4 => Some(u.int_in_range(0u64..=20_000_000_000)?),
        _ => Some(u.int_in_range(0u64..=4_000_000_000_000)?),
    };
    let exit_signal = if u.ratio(2u8, 5u8)? { Some((u.int_in_range(1u8..=64)?, u.arbitrary()?)) } else { None };
    let plan = ProcPlan { exit_after, exit_code: u.arbitrary()?, exit_signal, on_term: reaction(u)?, on_other: reaction(u)?, kill_delay: delay(u)?, cost_ns: pick(u, &[0u32, 1_000, 50_000])?, setpgid: u.ratio(1u8, 4u8)?, eintr_waits: if u.ratio(1u8, 5u8)? { u.int_in_range(1u8..=3)? } else { 0 } };
    let nops = u.int_in_range(0usize..=24)?;
    let mut ops = vec![];
    let dur = |u: &mut Unstructured| -> Result<u64> {
        Ok(match u.int_in_range(0u8..=6)? {
            0 => 0,
            6 => u64::MAX,
            1 => u.int_in_range(1u64..=999_000)?,
            2 | 3 => u.int_in_range(1_000_000u64..=999_000_000)?,
            4 => u.int_in_range(1_000_000_000u64..=30_000_000_000)?,
            _ => u.int_in_range(30_000_000_000u64..=3_600_000_000_000)?,
        })
    };
    for _ in 0..nops {
        ops.push(match u.int_in_range(0u8..=12)? {
            0 | 1 => p::HOp::Poll,
            2 => p::HOp::Wait,
            3 | 4 => p::HOp::WaitTimeout(dur(u)?),
            5 => p::HOp::Pid,
            6 => p::HOp::ExitStatus,
            7 => p::HOp::Terminate,
            8 => p::HOp::Kill,
            9 => p::HOp::SendSignal(u.int_in_range(0u8..=64)?),
            10 => p::HOp::Detach,
            11 => p::HOp::Advance(pick(u, &[1_000u64, 2_000_000, 300_000_000, 20_000_000_000, 4_000_000_000_000])?),
            _ => p::HOp::ExternalReap,
        });
    }
    if u.ratio(1u8, 2u8)? {
        // (no DropUnwinding here: libFuzzer's panic hook aborts the process on any panic, caught or not)
        let _ = u.ratio(1u8, 4u8)?;
        ops.push(p::HOp::Drop);
    }
    Ok((focus, p::ProcCase { plan, ops }))
}

static KNOWN: OnceLock<Vec<KnownFinding>> = OnceLock::new();

fn report(prop: &str, engine: &str, case: serde_json::Value, f: &Fail) -> ! {
    if let Ok(dir) = std::env::var("VERIF_FUZZ_OUT") {
        let _ = std::fs::create_dir_all(&dir);
        let body = serde_json::json!({"property": prop, "signature": f.signature, "engine": engine, "detail": f.detail, "source": "libFuzzer", "case": case});
        let path = format!("{}/{:016x}.json", dir, fnv(f.signature.as_bytes()));
        let _ = std::fs::write(&path, serde_json::to_vec_pretty(&body).unwrap_or_default());
        eprintln!("VERIF-FUZZ-VIOLATION property={} replay={}", prop, path);
    }
    panic!("violation {}: {}", f.signature, f.detail.lines().next().unwrap_or(""));
}

/// One libFuzzer iteration on the simulated kernel (C01-C04).
pub fn fuzz_simk_one(data: &[u8]) {
    crate::interpose::init();
    let mut u = Unstructured::new(data);
    let forced = std::env::var("VERIF_FUZZ_FOCUS").ok().map(|f| match f.as_str() {
        "C01" => c::Focus::C01,
        "C02" => c::Focus::C02,
        "C03" => c::Focus::C03,
        _ => c::Focus::C04,
    });
    let (focus, case) = match simk_case(&mut u, forced) {
        Ok(x) => x,
        Err(_) => return,
    };
    let mut rep = CaseReport::default();
    if let Err(f) = c::run_and_judge(focus, &case, &mut rep) {
        let prop = &f.signature[..3].to_string();
        let known = KNOWN.get_or_init(load_known);
        if known.iter().any(|k| &k.property == prop && k.status == "known" && k.signature == f.signature) {
            return;
        }
        report(prop, "simk", serde_json::to_value(&case).unwrap_or_default(), &f);
    }
}

/// One libFuzzer iteration on the simulated process table (C09-C11).
pub fn fuzz_simproc_one(data: &[u8]) {
    crate::interpose::init();
    let mut u = Unstructured::new(data);
    let forced = std::env::var("VERIF_FUZZ_FOCUS").ok().map(|f| match f.as_str() {
        "C09" => p::Focus::C09,
        "C10" => p::Focus::C10,
        _ => p::Focus::C11,
    });
    let (focus, case) = match proc_case(&mut u, forced) {
        Ok(x) => x,
        Err(_) => return,
    };
    let o = p::run_proc(&case);
    let mut rep = CaseReport::default();
    if let Err(f) = p::judge(focus, &case, &o, &mut rep) {
        let prop = &f.signature[..3].to_string();
        let known = KNOWN.get_or_init(load_known);
        if known.iter().any(|k| &k.property == prop && k.status == "known" && k.signature == f.signature) {
            return;
        }
        report(prop, "simproc", serde_json::to_value(&case).unwrap_or_default(), &f);
    }
}
