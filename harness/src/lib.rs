//! Verification harness for hniksic/rust-subprocess (property-based testing
//! and fuzzing).  See /verif/DESIGN.md.
pub mod alloc;
pub mod cli;
pub mod fuzzdec;
pub mod hang;
pub mod interpose;
pub mod real;
pub mod runner;
pub mod simk;
pub mod simproc;
pub mod util;
pub mod props;
