//! Verification harness for hniksic/rust-subprocess (property-based testing
//! and fuzzing).  See /verif/DESIGN.md.
pub mod alloc;
pub mod cli;
pub mod interpose;
pub mod runner;
pub mod util;
pub mod props;
