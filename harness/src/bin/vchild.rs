//! Helper child for the real-process tiers.  Independent of the `subprocess`
//! crate and of the harness library (no interposition in here).
//!
//! Mode selection: if the directory of /proc/self/exe contains a file
//! `.vcmode`, its first line is the mode and the following lines are the
//! mode's parameters (used when argv and the environment are under test).
//! Otherwise argv[1] is the mode and argv[2..] the parameters.
//!
//! `#![no_main]`: Rust's runtime start-up would set SIGPIPE to "ignore" before
//! `main`; the helper must observe (and act under) exactly the signal state it
//! was exec'ed with.
#![no_main]
use std::ffi::CString;
use std::io::{Read, Write};
use std::os::unix::ffi::OsStringExt;

fn hex(b: &[u8]) -> String {
    let mut s = String::with_capacity(b.len() * 2);
    for x in b {
        s.push_str(&format!("{:02x}", x));
    }
    s
}

fn die(msg: &str) -> ! {
    let _ = writeln!(std::io::stderr(), "vchild: {}", msg);
    unsafe { libc::_exit(98) }
}

fn raw_environ() -> Vec<Vec<u8>> {
    extern "C" {
        static environ: *const *const libc::c_char;
    }
    let mut v = vec![];
    unsafe {
        let mut p = environ;
        if p.is_null() {
            return v;
        }
        while !(*p).is_null() {
            v.push(std::ffi::CStr::from_ptr(*p).to_bytes().to_vec());
            p = p.add(1);
        }
    }
    v
}

fn proc_status_field(name: &str) -> String {
    let s = std::fs::read_to_string("/proc/self/status").unwrap_or_default();
    for l in s.lines() {
        if let Some(rest) = l.strip_prefix(name) {
            return rest.trim_start_matches(':').trim().to_string();
        }
    }
    String::new()
}

fn same_description(a: i32, b: i32) -> bool {
    // file status flags live in the open file description: toggle O_NONBLOCK
    // through `a`, look through `b`, restore.
    unsafe {
        let fa = libc::fcntl(a, libc::F_GETFL);
        let fb = libc::fcntl(b, libc::F_GETFL);
        if fa < 0 || fb < 0 {
            return false;
        }
        if libc::fcntl(a, libc::F_SETFL, fa ^ libc::O_NONBLOCK) < 0 {
            return false;
        }
        let fb2 = libc::fcntl(b, libc::F_GETFL);
        libc::fcntl(a, libc::F_SETFL, fa);
        (fb ^ fb2) & libc::O_NONBLOCK != 0
    }
}

fn fd_info(fd: i32) -> String {
    unsafe {
        let mut st: libc::stat = std::mem::zeroed();
        if libc::fstat(fd, &mut st) != 0 {
            return format!("{{\"fd\":{},\"open\":false}}", fd);
        }
        let fl = libc::fcntl(fd, libc::F_GETFL);
        let fdfl = libc::fcntl(fd, libc::F_GETFD);
        let off = libc::lseek(fd, 0, libc::SEEK_CUR);
        format!(
            "{{\"fd\":{},\"open\":true,\"dev\":{},\"ino\":{},\"fmt\":{},\"acc\":{},\"flags\":{},\"cloexec\":{},\"offset\":{}}}",
            fd,
            st.st_dev,
            st.st_ino,
            st.st_mode & libc::S_IFMT,
            fl & libc::O_ACCMODE,
            fl,
            fdfl & libc::FD_CLOEXEC,
            off
        )
    }
}

fn open_fds() -> Vec<(i32, String)> {
    let mut v = vec![];
    if let Ok(rd) = std::fs::read_dir("/proc/self/fd") {
        for e in rd.flatten() {
            if let Ok(n) = e.file_name().to_string_lossy().parse::<i32>() {
                let t = std::fs::read_link(e.path()).map(|p| p.to_string_lossy().into_owned()).unwrap_or_default();
                v.push((n, t));
            }
        }
    }
    v.sort();
    v
}

fn write_atomic(path: &str, data: &[u8]) {
    let tmp = format!("{}.tmp", path);
    if let Ok(mut f) = std::fs::File::create(&tmp) {
        let _ = f.write_all(data);
        let _ = f.sync_data();
    }
    unsafe {
        let c = CString::new(tmp.clone()).unwrap();
        libc::chmod(c.as_ptr(), 0o666);
    }
    let _ = std::fs::rename(&tmp, path);
}

/// mode `report <prefix> [act]`: write everything about ourselves to
/// `<prefix>.<pid>.json`.  With act=1: afterwards set a distinct offset on each
/// seekable standard stream and write tags to stdout and stderr.
fn mode_report(params: &[String], argv: &[Vec<u8>]) -> ! {
    let prefix = params.first().cloned().unwrap_or_else(|| die("report: missing prefix"));
    let act = params.get(1).map(|s| s == "1").unwrap_or(false);
    let hold = params.get(2).map(|s| s.as_str()).unwrap_or("");
    let pid = unsafe { libc::getpid() };
    // fds first, before we open anything ourselves
    let fds_before = open_fds();
    let mut s = String::new();
    s.push_str("{");
    s.push_str(&format!("\"pid\":{},\"ppid\":{},\"pgid\":{},\"sid\":{},", pid, unsafe { libc::getppid() }, unsafe { libc::getpgid(0) }, unsafe { libc::getsid(0) }));
    s.push_str(&format!("\"uid\":{},\"euid\":{},\"gid\":{},\"egid\":{},", unsafe { libc::getuid() }, unsafe { libc::geteuid() }, unsafe { libc::getgid() }, unsafe { libc::getegid() }));
    s.push_str(&format!("\"argv\":[{}],", argv.iter().map(|a| format!("\"{}\"", hex(a))).collect::<Vec<_>>().join(",")));
    s.push_str(&format!("\"env\":[{}],", raw_environ().iter().map(|a| format!("\"{}\"", hex(a))).collect::<Vec<_>>().join(",")));
    let exe = std::fs::read_link("/proc/self/exe").map(|p| p.into_os_string().into_vec()).unwrap_or_default();
    s.push_str(&format!("\"exe\":\"{}\",", hex(&exe)));
    unsafe {
        let mut st: libc::stat = std::mem::zeroed();
        let dot = CString::new(".").unwrap();
        if libc::stat(dot.as_ptr(), &mut st) == 0 {
            s.push_str(&format!("\"cwd_dev\":{},\"cwd_ino\":{},", st.st_dev, st.st_ino));
        } else {
            s.push_str("\"cwd_dev\":0,\"cwd_ino\":0,");
        }
    }
    let cwd = std::env::current_dir().map(|p| p.into_os_string().into_vec()).unwrap_or_default();
    s.push_str(&format!("\"cwd\":\"{}\",", hex(&cwd)));
    s.push_str(&format!("\"sigblk\":\"{}\",\"sigign\":\"{}\",\"sigcgt\":\"{}\",", proc_status_field("SigBlk"), proc_status_field("SigIgn"), proc_status_field("SigCgt")));
    s.push_str(&format!("\"fds\":[{},{},{}],", fd_info(0), fd_info(1), fd_info(2)));
    s.push_str(&format!("\"same01\":{},\"same02\":{},\"same12\":{},", same_description(0, 1), same_description(0, 2), same_description(1, 2)));
    if hold == "readstdin" {
        let mut h: u64 = 0xcbf29ce484222325;
        let mut n: u64 = 0;
        let mut b = [0u8; 65536];
        loop {
            let r = unsafe { libc::read(0, b.as_mut_ptr() as *mut _, b.len()) };
            if r <= 0 {
                break;
            }
            fnv(&mut h, &b[..r as usize]);
            n += r as u64;
        }
        s.push_str(&format!("\"stdin_len\":{},\"stdin_fnv\":{},", n, h));
    }
    s.push_str(&format!(
        "\"open_fds\":[{}]",
        fds_before.iter().map(|(n, t)| format!("[{},\"{}\"]", n, hex(t.as_bytes()))).collect::<Vec<_>>().join(",")
    ));
    s.push('}');
    if act {
        unsafe {
            for fd in 0..3 {
                if libc::lseek(fd, 0, libc::SEEK_CUR) >= 0 {
                    libc::lseek(fd, 1000 + 100 * fd as libc::off_t, libc::SEEK_SET);
                }
            }
            let t1 = format!("<TAG1:{}>", pid);
            let t2 = format!("<TAG2:{}>", pid);
            libc::write(1, t1.as_ptr() as *const _, t1.len());
            libc::write(2, t2.as_ptr() as *const _, t2.len());
        }
    }
    write_atomic(&format!("{}.{}.json", prefix, pid), s.as_bytes());
    // optional 4th parameter: stay alive until that file exists (at most 30 s)
    if let Some(rel) = params.get(3) {
        if !rel.is_empty() {
            for _ in 0..6000 {
                if std::path::Path::new(rel).exists() {
                    break;
                }
                std::thread::sleep(std::time::Duration::from_millis(5));
            }
        }
    }
    match hold {
        "hold" => loop {
            unsafe { libc::pause() };
        },
        "holdread" => {
            let mut b = [0u8; 4096];
            loop {
                let n = unsafe { libc::read(0, b.as_mut_ptr() as *mut _, b.len()) };
                if n <= 0 {
                    break;
                }
            }
        }
        _ => {}
    }
    unsafe { libc::_exit(0) }
}

/// mode `stage <tag> <nlines> <delay_ms> <exit_code> <markerdir> <idx>`:
/// pipeline filter: output = "<tag>[" + input + "]<tag>"; writes nlines tagged
/// lines to stderr; optional delay after closing stdout; exits with exit_code.
fn mode_stage(p: &[String]) -> ! {
    if p.len() < 6 {
        die("stage: need 6 parameters");
    }
    let tag = &p[0];
    let nlines: u32 = p[1].parse().unwrap_or(0);
    let delay: u64 = p[2].parse().unwrap_or(0);
    let code: i32 = p[3].parse().unwrap_or(0);
    let marker = format!("{}/started.{}", p[4], p[5]);
    if p.get(6).map(|s| s.as_str()) == Some("igterm") {
        unsafe { libc::signal(libc::SIGTERM, libc::SIG_IGN) };
    }
    write_atomic(&marker, format!("{}", unsafe { libc::getpid() }).as_bytes());
    let mut out = std::io::stdout();
    let mut err = std::io::stderr();
    let _ = out.write_all(format!("{}[", tag).as_bytes());
    for i in 0..nlines / 2 {
        let _ = err.write_all(format!("E:{}:{}\n", tag, i).as_bytes());
    }
    let mut b = [0u8; 65536];
    let mut inp = std::io::stdin();
    loop {
        match inp.read(&mut b) {
            Ok(0) => break,
            Ok(n) => {
                if out.write_all(&b[..n]).is_err() {
                    unsafe { libc::_exit(77) }
                }
            }
            Err(_) => break,
        }
    }
    let _ = out.write_all(format!("]{}", tag).as_bytes());
    let _ = out.flush();
    for i in nlines / 2..nlines {
        let _ = err.write_all(format!("E:{}:{}\n", tag, i).as_bytes());
    }
    unsafe {
        libc::close(1);
        libc::close(0);
    }
    if delay > 0 {
        std::thread::sleep(std::time::Duration::from_millis(delay));
    }
    unsafe { libc::_exit(code) }
}

/// mode `script <report> <op>...`: ops over the real standard streams:
///   r<n> one read of up to n; R read stdin to EOF; c<to>,<n> copy one read to
///   <to>; C<to> cat; w<to>,<n> write n generated bytes; x<fd> close;
///   s<ms> sleep; e exit.  Generated bytes use the same content function as the
///   simulator (Hash flavour).  Report: bytes received (len, fnv), EOF flag.
fn content_byte(stream: u8, pos: u64) -> u8 {
    let x = (pos.wrapping_add(stream as u64 * 7919)).wrapping_mul(0x9E3779B97F4A7C15);
    ((x >> 29) ^ (x >> 51)) as u8
}
fn fnv(h: &mut u64, data: &[u8]) {
    for b in data {
        *h ^= *b as u64;
        *h = h.wrapping_mul(0x100000001b3);
    }
}
fn wr_all(fd: i32, mut data: &[u8]) -> bool {
    while !data.is_empty() {
        let n = unsafe { libc::write(fd, data.as_ptr() as *const _, data.len()) };
        if n <= 0 {
            return false;
        }
        data = &data[n as usize..];
    }
    true
}
fn mode_script(p: &[String]) -> ! {
    let report = p.first().cloned().unwrap_or_else(|| die("script: missing report path"));
    let mut h: u64 = 0xcbf29ce484222325;
    let mut nread: u64 = 0;
    let mut eof = false;
    let mut pos = [0u64; 3];
    let mut buf = vec![0u8; 1 << 16];
    let finish = |h: u64, nread: u64, eof: bool, pos: [u64; 3], why: &str| -> ! {
        write_atomic(&report, format!("{{\"read\":{},\"fnv\":{},\"eof\":{},\"wrote1\":{},\"wrote2\":{},\"end\":\"{}\"}}", nread, h, eof, pos[1], pos[2], why).as_bytes());
        unsafe { libc::_exit(0) }
    };
    let mut rd = |n: usize, buf: &mut Vec<u8>, h: &mut u64, nread: &mut u64, eof: &mut bool| -> usize {
        let n = n.clamp(1, buf.len());
        let r = unsafe { libc::read(0, buf.as_mut_ptr() as *mut _, n) };
        if r <= 0 {
            *eof = r == 0;
            return 0;
        }
        fnv(h, &buf[..r as usize]);
        *nread += r as u64;
        r as usize
    };
    for op in &p[1..] {
        let (c, rest) = op.split_at(1);
        match c {
            "r" => {
                rd(rest.parse().unwrap_or(1), &mut buf, &mut h, &mut nread, &mut eof);
            }
            "R" => loop {
                if rd(65536, &mut buf, &mut h, &mut nread, &mut eof) == 0 {
                    break;
                }
            },
            "c" => {
                let mut it = rest.split(',');
                let to: i32 = it.next().and_then(|s| s.parse().ok()).unwrap_or(1);
                let n: usize = it.next().and_then(|s| s.parse().ok()).unwrap_or(1);
                let k = rd(n, &mut buf, &mut h, &mut nread, &mut eof);
                if k > 0 && !wr_all(to, &buf[..k]) {
                    finish(h, nread, eof, pos, "epipe");
                }
            }
            "C" => {
                let to: i32 = rest.parse().unwrap_or(1);
                loop {
                    let k = rd(65536, &mut buf, &mut h, &mut nread, &mut eof);
                    if k == 0 {
                        break;
                    }
                    if !wr_all(to, &buf[..k]) {
                        finish(h, nread, eof, pos, "epipe");
                    }
                }
            }
            "w" => {
                let mut it = rest.split(',');
                let to: usize = it.next().and_then(|s| s.parse().ok()).unwrap_or(1);
                let n: u64 = it.next().and_then(|s| s.parse().ok()).unwrap_or(0);
                let data: Vec<u8> = (0..n).map(|i| content_byte(to as u8, pos[to] + i)).collect();
                if !wr_all(to as i32, &data) {
                    finish(h, nread, eof, pos, "epipe");
                }
                pos[to] += n;
            }
            "x" => unsafe {
                libc::close(rest.parse().unwrap_or(0));
            },
            "s" => std::thread::sleep(std::time::Duration::from_millis(rest.parse().unwrap_or(0))),
            "e" => finish(h, nread, eof, pos, "exit"),
            _ => die("script: bad op"),
        }
    }
    finish(h, nread, eof, pos, "end")
}

extern "C" fn on_sig(sig: i32) {
    // async-signal-safe: one write of "<sig>\n" to the log fd
    let fd = SIGLOG_FD.load(std::sync::atomic::Ordering::Relaxed);
    let mut b = [0u8; 8];
    let mut n = sig;
    let mut i = 6;
    b[7] = b'\n';
    loop {
        b[i] = b'0' + (n % 10) as u8;
        n /= 10;
        if n == 0 {
            break;
        }
        i -= 1;
    }
    unsafe {
        libc::write(fd, b[i..].as_ptr() as *const _, 8 - i);
    }
    if sig == libc::SIGTERM {
        unsafe { libc::_exit(0) }
    }
}
static SIGLOG_FD: std::sync::atomic::AtomicI32 = std::sync::atomic::AtomicI32::new(2);

/// mode `sigreport <logfile>`: log every catchable signal received; SIGTERM ends.
fn mode_sigreport(p: &[String]) -> ! {
    let path = p.first().cloned().unwrap_or_else(|| die("sigreport: missing path"));
    let c = CString::new(path.clone()).unwrap();
    let fd = unsafe { libc::open(c.as_ptr(), libc::O_WRONLY | libc::O_CREAT | libc::O_APPEND, 0o666) };
    if fd < 0 {
        die("sigreport: cannot open log");
    }
    SIGLOG_FD.store(fd, std::sync::atomic::Ordering::SeqCst);
    unsafe {
        for sig in 1..65 {
            if sig == libc::SIGKILL || sig == libc::SIGSTOP || sig == 32 || sig == 33 || sig == libc::SIGALRM {
                continue;
            }
            libc::signal(sig, on_sig as usize);
        }
    }
    write_atomic(&format!("{}.ready", path), b"ready");
    loop {
        unsafe { libc::pause() };
    }
}

#[no_mangle]
pub extern "C" fn main(_argc: libc::c_int, _argv: *const *const libc::c_char) -> libc::c_int {
    real_main();
    0
}

fn real_main() {
    unsafe { libc::alarm(600) };
    let argv: Vec<Vec<u8>> = std::env::args_os().map(|a| a.into_vec()).collect();
    // sidecar mode file next to the executable?
    let exe = std::fs::read_link("/proc/self/exe").ok();
    let mut mode: Option<(String, Vec<String>)> = None;
    if let Some(dir) = exe.as_ref().and_then(|e| e.parent().map(|p| p.to_path_buf())) {
        if let Ok(s) = std::fs::read_to_string(dir.join(".vcmode")) {
            let mut lines = s.lines().map(|l| l.to_string());
            if let Some(m) = lines.next() {
                mode = Some((m, lines.collect()));
            }
        }
    }
    let (mode, params) = match mode {
        Some(m) => m,
        None => {
            let a: Vec<String> = argv.iter().map(|b| String::from_utf8_lossy(b).into_owned()).collect();
            if a.len() < 2 {
                die("no mode");
            }
            (a[1].clone(), a[2..].to_vec())
        }
    };
    match mode.as_str() {
        "report" => mode_report(&params, &argv),
        "stage" => mode_stage(&params),
        "script" => mode_script(&params),
        "sigreport" => mode_sigreport(&params),
        "hold" => loop {
            unsafe { libc::pause() };
        },
        "holdread" => {
            // read stdin to EOF, then exit with the given code
            let mut b = [0u8; 4096];
            loop {
                let n = unsafe { libc::read(0, b.as_mut_ptr() as *mut _, b.len()) };
                if n <= 0 {
                    break;
                }
            }
            let code: i32 = params.first().and_then(|s| s.parse().ok()).unwrap_or(0);
            unsafe { libc::_exit(code) }
        }
        "exit" => {
            let code: i32 = params.first().and_then(|s| s.parse().ok()).unwrap_or(0);
            unsafe { libc::_exit(code) }
        }
        "sleepexit" => {
            let ms: u64 = params.first().and_then(|s| s.parse().ok()).unwrap_or(0);
            let code: i32 = params.get(1).and_then(|s| s.parse().ok()).unwrap_or(0);
            std::thread::sleep(std::time::Duration::from_millis(ms));
            unsafe { libc::_exit(code) }
        }
        "selfkill" => {
            let sig: i32 = params.first().and_then(|s| s.parse().ok()).unwrap_or(9);
            unsafe {
                // make sure the default action applies and core files are not written
                let rl = libc::rlimit { rlim_cur: 0, rlim_max: 0 };
                libc::setrlimit(libc::RLIMIT_CORE, &rl);
                libc::signal(sig, libc::SIG_DFL);
                let mut set: libc::sigset_t = std::mem::zeroed();
                libc::sigemptyset(&mut set);
                libc::sigprocmask(libc::SIG_SETMASK, &set, std::ptr::null_mut());
                libc::kill(libc::getpid(), sig);
                libc::pause();
                libc::_exit(99)
            }
        }
        "flood" => {
            // write to the given fd until it fails; exit 77 on EPIPE error
            let fd: i32 = params.first().and_then(|s| s.parse().ok()).unwrap_or(1);
            let b = [b'x'; 4096];
            loop {
                let n = unsafe { libc::write(fd, b.as_ptr() as *const _, b.len()) };
                if n < 0 {
                    unsafe { libc::_exit(77) }
                }
            }
        }
        "writeexit" => {
            // write N bytes of 'y' to fd, then exit with code
            let fd: i32 = params.first().and_then(|s| s.parse().ok()).unwrap_or(1);
            let n: usize = params.get(1).and_then(|s| s.parse().ok()).unwrap_or(0);
            let code: i32 = params.get(2).and_then(|s| s.parse().ok()).unwrap_or(0);
            let data = vec![b'y'; n];
            let ok = wr_all(fd, &data);
            unsafe { libc::_exit(if ok { code } else { 77 }) }
        }
        "argvhexcat" => {
            // copy stdin to stdout, then print own argv in hex (pipeline order check)
            let mut b = [0u8; 65536];
            loop {
                let n = unsafe { libc::read(0, b.as_mut_ptr() as *mut _, b.len()) };
                if n <= 0 {
                    break;
                }
                if !wr_all(1, &b[..n as usize]) {
                    unsafe { libc::_exit(77) }
                }
            }
            let mut s = String::new();
            for (i, a) in argv.iter().enumerate() {
                if i > 0 {
                    s.push(' ');
                }
                s.push_str(&hex(a));
                if a.is_empty() {
                    s.push('-');
                }
            }
            s.push('\n');
            let _ = wr_all(1, s.as_bytes());
            unsafe { libc::_exit(0) }
        }
        "argvhex" => {
            // print argv (from argv[2] on when selected by argv[1]) in hex, one line
            let mut s = String::new();
            for (i, a) in argv.iter().enumerate() {
                if i > 0 {
                    s.push(' ');
                }
                s.push_str(&hex(a));
                if a.is_empty() {
                    s.push('-');
                }
            }
            s.push('\n');
            let _ = std::io::stdout().write_all(s.as_bytes());
            unsafe { libc::_exit(0) }
        }
        _ => die("unknown mode"),
    }
}
