fn main() {
    vh::interpose::init();
    let args: Vec<String> = std::env::args().collect();
    if args.get(1).map(|s| s.as_str()) == Some("selftest") {
        match vh::simk::selftest_pipe_model(1, 200) {
            Ok(n) => {
                println!("pipe model agrees with the kernel on {} steps", n);
                std::process::exit(0)
            }
            Err(e) => {
                eprintln!("pipe model self-test failed: {}", e);
                std::process::exit(2)
            }
        }
    }
    let defs = vh::props::all();
    std::process::exit(vh::cli::dispatch(&defs, &args));
}
