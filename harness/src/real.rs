//! Engine E-C `real`: support for checks that spawn real children: scratch
//! directories, the helper `vchild`, descriptor and zombie audits, reports.
use crate::interpose as ip;
use serde::Deserialize;
use std::collections::BTreeMap;
use std::ffi::{CString, OsStr, OsString};
use std::os::unix::ffi::{OsStrExt, OsStringExt};
use std::path::{Path, PathBuf};

pub fn unhex(s: &str) -> Vec<u8> {
    let b = s.as_bytes();
    let mut v = Vec::with_capacity(b.len() / 2);
    let h = |c: u8| -> u8 {
        match c {
            b'0'..=b'9' => c - b'0',
            b'a'..=b'f' => c - b'a' + 10,
            _ => 0,
        }
    };
    let mut i = 0;
    while i + 1 < b.len() {
        v.push(h(b[i]) << 4 | h(b[i + 1]));
        i += 2;
    }
    v
}
pub fn hex(b: &[u8]) -> String {
    let mut s = String::with_capacity(b.len() * 2);
    for x in b {
        s.push_str(&format!("{:02x}", x));
    }
    s
}

/// World-accessible scratch directory, removed on drop.
pub struct Scratch {
    pub dir: PathBuf,
}
impl Scratch {
    pub fn new(parent: &Path, name: &str) -> Scratch {
        let dir = parent.join(name);
        let _ = std::fs::remove_dir_all(&dir);
        std::fs::create_dir_all(&dir).expect("scratch dir");
        chmod(&dir, 0o777);
        // every ancestor up to the parent must be searchable for other uids
        chmod(parent, 0o777);
        Scratch { dir }
    }
    pub fn path(&self, name: &str) -> PathBuf {
        self.dir.join(name)
    }
    pub fn subdir(&self, name: &str) -> PathBuf {
        let d = self.dir.join(name);
        std::fs::create_dir_all(&d).ok();
        chmod(&d, 0o777);
        d
    }
}
impl Drop for Scratch {
    fn drop(&mut self) {
        let _ = std::fs::remove_dir_all(&self.dir);
    }
}

pub fn chmod(p: &Path, mode: u32) {
    let c = CString::new(p.as_os_str().as_bytes()).unwrap();
    unsafe {
        libc::chmod(c.as_ptr(), mode as libc::mode_t);
    }
}

pub fn vchild_path() -> PathBuf {
    if let Ok(p) = std::env::var("VERIF_VCHILD") {
        return PathBuf::from(p);
    }
    let exe = std::env::current_exe().expect("current_exe");
    exe.parent().unwrap().join("vchild")
}

/// Hard-link (or copy) the helper under `dir/name`.
pub fn link_vchild(dir: &Path, name: &OsStr) -> PathBuf {
    let dst = dir.join(name);
    let _ = std::fs::remove_file(&dst);
    if std::fs::hard_link(vchild_path(), &dst).is_err() {
        std::fs::copy(vchild_path(), &dst).expect("copy vchild");
    }
    chmod(&dst, 0o755);
    dst
}

/// Write the sidecar mode file for all helper links in `dir`.
pub fn set_mode(dir: &Path, mode: &str, params: &[&str]) {
    let mut s = String::from(mode);
    s.push('\n');
    for p in params {
        s.push_str(p);
        s.push('\n');
    }
    std::fs::write(dir.join(".vcmode"), s).expect("write .vcmode");
    chmod(&dir.join(".vcmode"), 0o644);
}

#[derive(Clone, Debug, Deserialize)]
pub struct FdInfo {
    pub fd: i32,
    pub open: bool,
    #[serde(default)]
    pub dev: u64,
    #[serde(default)]
    pub ino: u64,
    #[serde(default)]
    pub fmt: u32,
    #[serde(default)]
    pub acc: i32,
    #[serde(default)]
    pub flags: i32,
    #[serde(default)]
    pub cloexec: i32,
    #[serde(default)]
    pub offset: i64,
}

#[derive(Clone, Debug, Deserialize)]
pub struct Report {
    pub pid: i32,
    pub ppid: i32,
    pub pgid: i32,
    pub sid: i32,
    pub uid: u32,
    pub euid: u32,
    pub gid: u32,
    pub egid: u32,
    pub argv: Vec<String>,
    pub env: Vec<String>,
    pub exe: String,
    pub cwd_dev: u64,
    pub cwd_ino: u64,
    pub cwd: String,
    pub sigblk: String,
    pub sigign: String,
    pub sigcgt: String,
    pub fds: Vec<FdInfo>,
    pub same01: bool,
    pub same02: bool,
    pub same12: bool,
    pub open_fds: Vec<(i32, String)>,
    #[serde(default)]
    pub stdin_len: Option<u64>,
    #[serde(default)]
    pub stdin_fnv: Option<u64>,
}
impl Report {
    pub fn argv_bytes(&self) -> Vec<Vec<u8>> {
        self.argv.iter().map(|s| unhex(s)).collect()
    }
    pub fn env_bytes(&self) -> Vec<Vec<u8>> {
        self.env.iter().map(|s| unhex(s)).collect()
    }
    pub fn exe_path(&self) -> PathBuf {
        PathBuf::from(OsString::from_vec(unhex(&self.exe)))
    }
    pub fn sigblk_bits(&self) -> u64 {
        u64::from_str_radix(&self.sigblk, 16).unwrap_or(u64::MAX)
    }
    pub fn sigign_bits(&self) -> u64 {
        u64::from_str_radix(&self.sigign, 16).unwrap_or(u64::MAX)
    }
    pub fn sigcgt_bits(&self) -> u64 {
        u64::from_str_radix(&self.sigcgt, 16).unwrap_or(u64::MAX)
    }
}

/// Wait (real time, bounded) for a file to appear and parse it.
pub fn wait_file(path: &Path, timeout_ms: u64) -> Option<Vec<u8>> {
    let t0 = ip::real_now_ns();
    loop {
        if let Ok(b) = std::fs::read(path) {
            return Some(b);
        }
        if (ip::real_now_ns() - t0) / 1_000_000 > timeout_ms as i64 {
            return None;
        }
        ip::real_sleep_ms(1);
    }
}

/// All reports written under a prefix (any pid), waiting until `n` exist.
pub fn read_reports(prefix: &Path, n: usize, timeout_ms: u64) -> Vec<Report> {
    let dir = prefix.parent().unwrap().to_path_buf();
    let stem = prefix.file_name().unwrap().to_string_lossy().into_owned();
    let mut out = vec![];
    wait_until(timeout_ms, || {
        out.clear();
        if let Ok(rd) = std::fs::read_dir(&dir) {
            for e in rd.flatten() {
                let name = e.file_name().to_string_lossy().into_owned();
                if name.starts_with(&format!("{}.", stem)) && name.ends_with(".json") {
                    if let Ok(b) = std::fs::read(e.path()) {
                        if let Ok(r) = serde_json::from_slice::<Report>(&b) {
                            out.push(r);
                        }
                    }
                }
            }
        }
        out.len() >= n
    });
    out
}

pub fn read_report(prefix: &Path, pid: u32, timeout_ms: u64) -> Option<Report> {
    let p = PathBuf::from(format!("{}.{}.json", prefix.display(), pid));
    let b = wait_file(&p, timeout_ms)?;
    serde_json::from_slice(&b).ok()
}

// ---------------------------------------------------------------------------
// Audits
// ---------------------------------------------------------------------------

#[derive(Clone, Debug, PartialEq, Eq)]
pub struct FdEntry {
    pub target: String,
    pub flags: String,
    pub pos: String,
}

/// Snapshot of this process's descriptor table (number -> target, flags, pos).
pub fn fd_snapshot() -> BTreeMap<i32, FdEntry> {
    let mut m = BTreeMap::new();
    let rd = match std::fs::read_dir("/proc/self/fd") {
        Ok(r) => r,
        Err(_) => return m,
    };
    let mut names: Vec<i32> = vec![];
    for e in rd.flatten() {
        if let Ok(n) = e.file_name().to_string_lossy().parse::<i32>() {
            names.push(n);
        }
    }
    for n in names {
        let target = match std::fs::read_link(format!("/proc/self/fd/{}", n)) {
            Ok(t) => t.to_string_lossy().into_owned(),
            Err(_) => continue, // the directory handle itself, already closed
        };
        let info = std::fs::read_to_string(format!("/proc/self/fdinfo/{}", n)).unwrap_or_default();
        let mut flags = String::new();
        let mut pos = String::new();
        for l in info.lines() {
            if let Some(v) = l.strip_prefix("flags:") {
                flags = v.trim().to_string();
            }
            if let Some(v) = l.strip_prefix("pos:") {
                pos = v.trim().to_string();
            }
        }
        m.insert(n, FdEntry { target, flags, pos });
    }
    m
}

pub fn fd_diff(before: &BTreeMap<i32, FdEntry>, after: &BTreeMap<i32, FdEntry>, compare_pos: bool) -> Vec<String> {
    let mut d = vec![];
    for (k, v) in after {
        match before.get(k) {
            None => d.push(format!("fd {} left open -> {}", k, v.target)),
            Some(b) => {
                if b.target != v.target {
                    d.push(format!("fd {} changed: {} -> {}", k, b.target, v.target));
                } else if b.flags != v.flags {
                    d.push(format!("fd {} flags changed: {} -> {}", k, b.flags, v.flags));
                } else if compare_pos && b.pos != v.pos {
                    d.push(format!("fd {} position changed: {} -> {}", k, b.pos, v.pos));
                }
            }
        }
    }
    for (k, v) in before {
        if !after.contains_key(k) {
            d.push(format!("fd {} was closed (was {})", k, v.target));
        }
    }
    d
}

/// Zombie / orphan audit: this process must have no children at all.
/// Ok(()) = none; Err describes what was found (and reaps/kills it).
pub fn child_audit() -> Result<(), String> {
    let mut found = vec![];
    loop {
        let mut st = 0;
        let r = unsafe { ip::raw_waitpid(-1, &mut st, libc::WNOHANG) };
        if r > 0 {
            found.push(format!("zombie pid {} (status {:#x})", r, st));
            continue;
        }
        if r == 0 {
            // running children exist: find them, kill them
            let me = std::process::id();
            let mut pids = vec![];
            if let Ok(s) = std::fs::read_to_string(format!("/proc/{}/task/{}/children", me, me)) {
                pids = s.split_whitespace().filter_map(|x| x.parse::<i32>().ok()).collect();
            }
            if pids.is_empty() {
                // children of other threads: scan all tasks
                if let Ok(rd) = std::fs::read_dir(format!("/proc/{}/task", me)) {
                    for e in rd.flatten() {
                        if let Ok(s) = std::fs::read_to_string(e.path().join("children")) {
                            pids.extend(s.split_whitespace().filter_map(|x| x.parse::<i32>().ok()));
                        }
                    }
                }
            }
            for p in &pids {
                found.push(format!("still-running child pid {}", p));
                unsafe {
                    ip::raw_kill(*p, libc::SIGKILL);
                    let mut st = 0;
                    ip::raw_waitpid(*p, &mut st, 0);
                }
            }
            if pids.is_empty() {
                found.push("running child (pid unknown)".to_string());
                break;
            }
            continue;
        }
        break; // ECHILD
    }
    if found.is_empty() {
        Ok(())
    } else {
        Err(found.join(", "))
    }
}

/// Kill and reap every child of this process (cleanup between cases).
pub fn reap_all() {
    let _ = child_audit();
}

pub fn os(s: &[u8]) -> OsString {
    OsString::from_vec(s.to_vec())
}

/// fstat identity of a descriptor.
pub fn fd_ident(fd: i32) -> (u64, u64) {
    unsafe {
        let mut st: libc::stat = std::mem::zeroed();
        if libc::fstat(fd, &mut st) != 0 {
            return (0, 0);
        }
        (st.st_dev as u64, st.st_ino as u64)
    }
}

/// Read the descriptor table of another process: fd -> (target, flags).
pub fn proc_fds(pid: u32) -> Option<BTreeMap<i32, (String, String)>> {
    let mut m = BTreeMap::new();
    let rd = std::fs::read_dir(format!("/proc/{}/fd", pid)).ok()?;
    for e in rd.flatten() {
        if let Ok(n) = e.file_name().to_string_lossy().parse::<i32>() {
            let target = std::fs::read_link(e.path()).map(|t| t.to_string_lossy().into_owned()).unwrap_or_default();
            let info = std::fs::read_to_string(format!("/proc/{}/fdinfo/{}", pid, n)).unwrap_or_default();
            let flags = info.lines().find_map(|l| l.strip_prefix("flags:").map(|v| v.trim().to_string())).unwrap_or_default();
            m.insert(n, (target, flags));
        }
    }
    Some(m)
}

/// State of a process from /proc/<pid>/stat (third field), e.g. 'Z' zombie.
pub fn proc_state(pid: u32) -> Option<char> {
    let s = std::fs::read_to_string(format!("/proc/{}/stat", pid)).ok()?;
    let r = s.rfind(')')?;
    s[r + 1..].trim_start().chars().next()
}

/// Name of the image a process is running (for "has exec happened yet").
pub fn proc_exe(pid: u32) -> Option<PathBuf> {
    std::fs::read_link(format!("/proc/{}/exe", pid)).ok()
}

pub fn wait_until(timeout_ms: u64, mut f: impl FnMut() -> bool) -> bool {
    let t0 = ip::real_now_ns();
    loop {
        if f() {
            return true;
        }
        if (ip::real_now_ns() - t0) / 1_000_000 > timeout_ms as i64 {
            return false;
        }
        ip::real_sleep_ms(1);
    }
}

// ---------------------------------------------------------------------------
// Temporarily replace this process's fds 0/1/2 (for "inherited" streams)
// ---------------------------------------------------------------------------

pub struct StdGuard {
    saved: [i32; 3],
}
impl StdGuard {
    /// Replace fd i by `files[i]` (if Some). Originals are kept on high,
    /// close-on-exec numbers and restored on drop.
    pub fn new(files: [Option<&std::fs::File>; 3]) -> StdGuard {
        use std::os::unix::io::AsRawFd;
        let mut saved = [-1; 3];
        for i in 0..3 {
            if let Some(f) = files[i] {
                unsafe {
                    saved[i] = libc::syscall(libc::SYS_fcntl, i as i32, libc::F_DUPFD_CLOEXEC, 500) as i32;
                    assert!(saved[i] >= 0);
                    let r = libc::syscall(libc::SYS_dup2, f.as_raw_fd(), i as i32);
                    assert!(r >= 0);
                }
            }
        }
        StdGuard { saved }
    }
}
impl Drop for StdGuard {
    fn drop(&mut self) {
        for i in 0..3 {
            if self.saved[i] >= 0 {
                unsafe {
                    libc::syscall(libc::SYS_dup2, self.saved[i], i as i32);
                    ip::raw_close(self.saved[i]);
                }
            }
        }
    }
}


/// Temporarily CLOSE some of this process's fds 0/1/2 (a daemon-like parent);
/// restored on drop.
pub struct CloseGuard {
    saved: [i32; 3],
}
impl CloseGuard {
    pub fn new(mask: u8) -> CloseGuard {
        let mut saved = [-1; 3];
        for i in 0..3 {
            if mask & (1 << i) != 0 {
                unsafe {
                    saved[i] = libc::syscall(libc::SYS_fcntl, i as i32, libc::F_DUPFD_CLOEXEC, 500) as i32;
                    if saved[i] >= 0 {
                        ip::raw_close(i as i32);
                    }
                }
            }
        }
        CloseGuard { saved }
    }
}
impl Drop for CloseGuard {
    fn drop(&mut self) {
        for i in 0..3 {
            if self.saved[i] >= 0 {
                unsafe {
                    libc::syscall(libc::SYS_dup2, self.saved[i], i as i32);
                    ip::raw_close(self.saved[i]);
                }
            }
        }
    }
}
