//! Engine E-A `simk`: simulated pipes, poll, virtual clock and a scripted
//! child, behind the interposed libc symbols.  The real `Communicator` code of
//! the crate runs against it; the generated case contains the schedule, the
//! pipe capacities, the short-I/O pattern and all timing.
use crate::interpose::{self as ip, SimHooks};
use libc::{c_int, pollfd};
use serde::{Deserialize, Serialize};
use std::collections::VecDeque;

pub const PAGE: usize = 4096;
pub const PIPE_BUF: usize = 4096;

pub const E_DEADLOCK: c_int = 4000;
pub const E_SPIN: c_int = 4001;
pub const E_OVERRUN: c_int = 4002;

#[derive(Clone, Copy, Debug, PartialEq, Eq, Serialize, Deserialize)]
pub enum Flavour {
    /// Linux pipe: ring of page slots, append-to-last-page merge rule,
    /// writable iff a slot is free.
    LinuxSlots,
    /// POSIX byte-counting pipe: writable iff free >= PIPE_BUF, writes of at
    /// most PIPE_BUF bytes are atomic.
    PosixBytes,
    /// Byte stream on which a blocking write may legitimately return short
    /// at any size (interrupted after a partial transfer); writable iff
    /// free >= PIPE_BUF.  `Popen::stdin` is a public `File`, any such object
    /// can sit there.
    Stream,
}

#[derive(Clone, Debug)]
pub struct Pipe {
    pub cap: usize,
    pub flavour: Flavour,
    pub buf: VecDeque<u8>,
    /// LinuxSlots: (offset, len) of every used slot
    pub slots: VecDeque<(usize, usize)>,
    pub reader_open: bool,
    pub writer_open: bool,
    /// total bytes ever accepted
    pub total_in: u64,
    pub total_out: u64,
}

impl Pipe {
    pub fn new(cap: usize, flavour: Flavour) -> Pipe {
        Pipe { cap, flavour, buf: VecDeque::new(), slots: VecDeque::new(), reader_open: true, writer_open: true, total_in: 0, total_out: 0 }
    }
    fn nslots(&self) -> usize {
        (self.cap / PAGE).max(1)
    }
    pub fn len(&self) -> usize {
        self.buf.len()
    }
    pub fn writable(&self) -> bool {
        match self.flavour {
            Flavour::LinuxSlots => self.slots.len() < self.nslots(),
            _ => self.cap - self.buf.len() >= PIPE_BUF,
        }
    }
    /// How many bytes of a write of `n` bytes can be accepted right now
    /// (without blocking).  For atomic writes this is 0 or n.
    fn accept_now(&self, n: usize) -> usize {
        match self.flavour {
            Flavour::LinuxSlots => {
                let mut rem = n;
                let mut acc = 0;
                let chars = n % PAGE;
                let mut free = self.nslots() - self.slots.len();
                if chars != 0 {
                    if let Some(&(off, len)) = self.slots.back() {
                        if off + len + chars <= PAGE {
                            acc += chars;
                            rem -= chars;
                        }
                    }
                }
                while rem > 0 && free > 0 {
                    let c = rem.min(PAGE);
                    acc += c;
                    rem -= c;
                    free -= 1;
                }
                if n <= PIPE_BUF && acc < n {
                    0
                } else {
                    acc
                }
            }
            _ => {
                let free = self.cap - self.buf.len();
                if n <= PIPE_BUF {
                    if free >= n {
                        n
                    } else {
                        0
                    }
                } else {
                    free.min(n)
                }
            }
        }
    }
    /// Accept exactly `k` bytes (k as computed by accept_now for this data).
    fn push(&mut self, data: &[u8], n_total: usize) {
        let k = data.len();
        if k == 0 {
            return;
        }
        if self.flavour == Flavour::LinuxSlots {
            let mut rem = k;
            let chars = n_total % PAGE;
            if chars != 0 && chars <= rem {
                if let Some(last) = self.slots.back_mut() {
                    if last.0 + last.1 + chars <= PAGE {
                        last.1 += chars;
                        rem -= chars;
                    }
                }
            }
            while rem > 0 {
                let c = rem.min(PAGE);
                self.slots.push_back((0, c));
                rem -= c;
            }
        }
        self.buf.extend(data.iter().copied());
        self.total_in += k as u64;
    }
    fn pop(&mut self, out: &mut [u8]) -> usize {
        let n = out.len().min(self.buf.len());
        for b in out.iter_mut().take(n) {
            *b = self.buf.pop_front().unwrap();
        }
        if self.flavour == Flavour::LinuxSlots {
            let mut rem = n;
            while rem > 0 {
                let front = self.slots.front_mut().unwrap();
                let c = rem.min(front.1);
                front.0 += c;
                front.1 -= c;
                rem -= c;
                if front.1 == 0 {
                    self.slots.pop_front();
                }
            }
        }
        self.total_out += n as u64;
        n
    }
}

// ---------------------------------------------------------------------------
// Child scripts
// ---------------------------------------------------------------------------

/// Streams as seen from the child: 0 = stdin, 1 = stdout, 2 = stderr.
#[derive(Clone, Debug, PartialEq, Eq, Serialize, Deserialize)]
pub enum COp {
    /// one read() of up to n bytes from stdin, data discarded
    ReadIn(u32),
    /// read stdin to end-of-file in chunks
    ReadAll(u32),
    /// one read() of up to n bytes from stdin, then write exactly those bytes to `to`
    Copy { n: u32, to: u8 },
    /// cat: copy stdin to `to` until end-of-file
    Cat { to: u8, chunk: u32 },
    /// write n generated bytes to `to` (blocking until all written)
    Write { to: u8, n: u32 },
    Close(u8),
    Sleep(u64),
    /// write forever in chunks (until the reader goes away)
    Flood { to: u8, chunk: u32 },
    Exit,
    /// a multiplexing child (select loop): reads stdin whenever it has data,
    /// otherwise writes generated bytes to `to`; ends at end-of-file on stdin
    /// or once `need` bytes (when non-zero) have arrived
    FloodUntilInput { to: u8, chunk: u32, need: u32 },
}

#[derive(Clone, Copy, Debug, PartialEq, Eq, Serialize, Deserialize)]
pub enum Content {
    Hash,
    Utf8Multi,
    AsciiInvalidMix,
}

pub fn content_byte(kind: Content, stream: u8, pos: u64) -> u8 {
    match kind {
        Content::Hash => {
            let x = (pos.wrapping_add(stream as u64 * 7919)).wrapping_mul(0x9E3779B97F4A7C15);
            ((x >> 29) ^ (x >> 51)) as u8
        }
        Content::Utf8Multi => {
            const S: &[u8] = "a\u{e9}\u{4e2d}\u{1f600}z\n\u{fffd}q".as_bytes();
            S[((pos + stream as u64 * 3) % S.len() as u64) as usize]
        }
        Content::AsciiInvalidMix => {
            let p = pos + stream as u64;
            match p % 11 {
                3 => 0xff,
                7 => 0xc3,
                9 => 0x00,
                k => b'a' + k as u8,
            }
        }
    }
}

#[derive(Clone, Copy, Debug, PartialEq, Eq)]
pub enum ChildState {
    Runnable,
    BlockedRead,
    BlockedWrite(u8),
    /// select(): waiting for stdin readable or stream writable
    BlockedRW(u8),
    Sleeping(i64),
    Done,
}

// ---------------------------------------------------------------------------
// Parent-side op log
// ---------------------------------------------------------------------------

#[derive(Clone, Copy, Debug, PartialEq, Eq)]
pub enum PKind {
    Poll,
    Read,
    Write,
    Close,
}

#[derive(Clone, Debug)]
pub struct POp {
    pub kind: PKind,
    /// object (0 = stdin pipe, 1 = stdout pipe, 2 = stderr pipe); for poll: bitmask of polled objects
    pub obj: u32,
    pub req: i64,
    pub ret: i64,
    pub t_enter: i64,
    pub t_leave: i64,
    /// for poll: revents per object (index 0..3), -1 if not polled
    pub revents: [i16; 3],
    pub child_done_before: bool,
    /// index of the harness-level read() call during which this op happened
    pub call: u32,
}

#[derive(Clone, Debug, PartialEq, Eq)]
pub enum Verdict {
    Deadlock(String),
    Spin(String),
    Overrun(String),
}

#[derive(Clone, Debug, Serialize, Deserialize)]
pub struct SimCfg {
    /// bit 0: stdin piped, bit 1: stdout piped, bit 2: stderr piped
    pub streams: u8,
    pub caps: [u32; 3],
    pub flavour: Flavour,
    pub script: Vec<COp>,
    pub content: Content,
    /// child steps to run before the i-th parent call
    pub sched: Vec<u8>,
    /// after `sched` is exhausted: 0 = child runs only when the parent blocks,
    /// 1 = child runs until blocked before every parent call, k>=2 = k-1 steps per call
    pub sched_tail: u8,
    /// cap (bytes) on the i-th parent read(), 0 = none
    pub short_read: Vec<u16>,
    /// cap (bytes) on the i-th parent write(), 0 = none
    pub short_write: Vec<u16>,
    /// cost of one parent call in virtual ns
    pub cost_ns: u32,
    /// signal interruptions: if the i-th poll() of the parent would block and
    /// eintr[i] = k > 0, it returns -1/EINTR after k ms (at most half of its
    /// timeout) instead
    #[serde(default)]
    pub eintr: Vec<u8>,
}

pub struct Sim {
    pub cfg: SimCfg,
    pub pipes: [Option<Pipe>; 3],
    pub now: i64,
    // child
    pub pc: usize,
    pub cstate: ChildState,
    carry: Vec<u8>,   // bytes to write for Copy/Cat
    carry_to: u8,
    wrem: u64,
    flood_rx: u64,        // remaining bytes of a Write op in progress
    in_op: bool,      // current op has started
    pub child_open: [bool; 3],
    pub wrote: [Vec<u8>; 3], // index 1, 2 used
    pub child_read: Vec<u8>,
    pub child_saw_eof: bool,
    pub child_done_at: Option<(i64, usize)>, // (time, parent op index)
    pub child_steps: u64,
    pub child_died_sigpipe: bool,
    // parent
    pub ops: Vec<POp>,
    pub ncalls: u64,
    pub clock_reads: u64,
    pub nread: usize,
    pub nwrite: usize,
    pub npoll: usize,
    pub eintr_hit: u32,
    pub short_reads_hit: u32,
    pub short_writes_hit: u32,
    pub verdict: Option<Verdict>,
    pub budget_extra: u64,
    pub cur_call: u32,
    pub cur_deadline: Option<i64>,
    pub polls_after_deadline: u32,
    pub io_after_deadline: u32,
    pub post_verdict_calls: u64,
    /// consecutive parent calls that moved no byte, closed nothing and did not block
    pub idle_streak: u32,
    pub parent_blocked_first: Option<&'static str>,
    pub input_len: usize,
    pub input_accepted: Vec<u8>,
    pub trace: bool,
}

impl Sim {
    pub fn new(cfg: SimCfg, input_len: usize) -> Sim {
        let mk = |i: usize, cfg: &SimCfg| -> Option<Pipe> {
            if cfg.streams & (1 << i) != 0 {
                Some(Pipe::new(cfg.caps[i] as usize, cfg.flavour))
            } else {
                None
            }
        };
        let pipes = [mk(0, &cfg), mk(1, &cfg), mk(2, &cfg)];
        Sim {
            pipes,
            now: 1_000_000_000_000,
            pc: 0,
            cstate: ChildState::Runnable,
            carry: vec![],
            carry_to: 1,
            wrem: 0,
            flood_rx: 0,
            in_op: false,
            child_open: [true; 3],
            wrote: [vec![], vec![], vec![]],
            child_read: vec![],
            child_saw_eof: false,
            child_done_at: None,
            child_steps: 0,
            child_died_sigpipe: false,
            ops: vec![],
            ncalls: 0,
            clock_reads: 0,
            nread: 0,
            nwrite: 0,
            npoll: 0,
            eintr_hit: 0,
            short_reads_hit: 0,
            short_writes_hit: 0,
            verdict: None,
            budget_extra: 0,
            cur_call: 0,
            cur_deadline: None,
            polls_after_deadline: 0,
            io_after_deadline: 0,
            post_verdict_calls: 0,
            idle_streak: 0,
            parent_blocked_first: None,
            input_len,
            input_accepted: vec![],
            trace: std::env::var("VERIF_TRACE").is_ok(),
            cfg,
        }
    }

    // ----- child ---------------------------------------------------------

    fn child_finish(&mut self) {
        for i in 0..3 {
            self.child_close(i);
        }
        if self.cstate != ChildState::Done {
            self.cstate = ChildState::Done;
            self.child_done_at = Some((self.now, self.ops.len()));
        }
    }
    fn child_close(&mut self, s: usize) {
        if !self.child_open[s] {
            return;
        }
        self.child_open[s] = false;
        if let Some(p) = self.pipes[s].as_mut() {
            if s == 0 {
                p.reader_open = false;
            } else {
                p.writer_open = false;
            }
        }
    }

    /// child read of up to n bytes; None = would block
    fn child_do_read(&mut self, n: usize) -> Option<Vec<u8>> {
        if !self.child_open[0] {
            return Some(vec![]); // EBADF in reality; script normaliser avoids it
        }
        match self.pipes[0].as_mut() {
            None => {
                self.child_saw_eof = true;
                Some(vec![])
            }
            Some(p) => {
                if p.len() > 0 {
                    let mut v = vec![0u8; n.min(p.len())];
                    p.pop(&mut v);
                    self.child_read.extend_from_slice(&v);
                    Some(v)
                } else if !p.writer_open {
                    self.child_saw_eof = true;
                    Some(vec![])
                } else {
                    None
                }
            }
        }
    }

    /// child write progress on `carry`; returns true when carry is empty,
    /// false if blocked; Err(()) if the child died of SIGPIPE.
    fn child_push_carry(&mut self) -> Result<bool, ()> {
        let to = self.carry_to as usize;
        if self.carry.is_empty() {
            return Ok(true);
        }
        if to == 0 {
            self.carry.clear();
            return Ok(true);
        }
        if !self.child_open[to] {
            self.carry.clear();
            return Ok(true);
        }
        match self.pipes[to].as_mut() {
            None => {
                self.carry.clear();
                Ok(true)
            }
            Some(p) => {
                if !p.reader_open {
                    return Err(());
                }
                let rem = self.carry.len();
                let k = p.accept_now(rem);
                if k == 0 {
                    return Ok(false);
                }
                let data: Vec<u8> = self.carry.drain(..k).collect();
                p.push(&data, rem);
                self.wrote[to].extend_from_slice(&data);
                Ok(self.carry.is_empty())
            }
        }
    }

    /// child write progress on a generated Write/Flood op
    fn child_push_gen(&mut self, to: usize) -> Result<bool, ()> {
        if self.wrem == 0 {
            return Ok(true);
        }
        if to == 0 {
            self.wrem = 0;
            return Ok(true);
        }
        if !self.child_open[to] {
            self.wrem = 0;
            return Ok(true);
        }
        let content = self.cfg.content;
        match self.pipes[to].as_mut() {
            None => {
                self.wrem = 0;
                Ok(true)
            }
            Some(p) => {
                if !p.reader_open {
                    return Err(());
                }
                let k = p.accept_now(self.wrem as usize);
                if k == 0 {
                    return Ok(false);
                }
                let base = self.wrote[to].len() as u64;
                let data: Vec<u8> = (0..k as u64).map(|i| content_byte(content, to as u8, base + i)).collect();
                p.push(&data, self.wrem as usize);
                self.wrote[to].extend_from_slice(&data);
                self.wrem -= k as u64;
                Ok(self.wrem == 0)
            }
        }
    }

    fn child_die_sigpipe(&mut self) -> bool {
        self.child_died_sigpipe = true;
        self.child_finish();
        true
    }

    /// Run one child step (one system call of the scripted child).  Must be
    /// called with the child Runnable.  Returns true if the child made
    /// progress; false means it is now blocked.
    pub fn child_step(&mut self) -> bool {
        if self.cstate != ChildState::Runnable {
            return false;
        }
        if self.pc >= self.cfg.script.len() {
            self.child_finish();
            return true;
        }
        self.child_steps += 1;
        let op = self.cfg.script[self.pc].clone();
        let mut advance = false;
        match op {
            COp::ReadIn(n) => match self.child_do_read(n.max(1) as usize) {
                Some(_) => advance = true,
                None => {
                    self.cstate = ChildState::BlockedRead;
                    return false;
                }
            },
            COp::ReadAll(chunk) => match self.child_do_read(chunk.max(1) as usize) {
                Some(v) => advance = v.is_empty(),
                None => {
                    self.cstate = ChildState::BlockedRead;
                    return false;
                }
            },
            COp::Copy { n, to } => {
                if !self.in_op {
                    match self.child_do_read(n.max(1) as usize) {
                        Some(v) => {
                            self.in_op = true;
                            self.carry = v;
                            self.carry_to = to % 3;
                            if self.carry.is_empty() {
                                advance = true;
                            }
                        }
                        None => {
                            self.cstate = ChildState::BlockedRead;
                            return false;
                        }
                    }
                } else {
                    let before = self.carry.len();
                    match self.child_push_carry() {
                        Ok(true) => advance = true,
                        Ok(false) => {
                            if self.carry.len() == before {
                                self.cstate = ChildState::BlockedWrite(to % 3);
                                return false;
                            }
                        }
                        Err(()) => return self.child_die_sigpipe(),
                    }
                }
            }
            COp::Cat { to, chunk } => {
                if self.carry.is_empty() {
                    match self.child_do_read(chunk.max(1) as usize) {
                        Some(v) => {
                            if v.is_empty() {
                                advance = true;
                            } else {
                                self.carry = v;
                                self.carry_to = to % 3;
                            }
                        }
                        None => {
                            self.cstate = ChildState::BlockedRead;
                            return false;
                        }
                    }
                } else {
                    let before = self.carry.len();
                    match self.child_push_carry() {
                        Ok(_) => {
                            if self.carry.len() == before {
                                self.cstate = ChildState::BlockedWrite(to % 3);
                                return false;
                            }
                        }
                        Err(()) => return self.child_die_sigpipe(),
                    }
                }
            }
            COp::Write { to, n } => {
                if !self.in_op {
                    self.in_op = true;
                    self.wrem = n as u64;
                }
                let before = self.wrem;
                match self.child_push_gen(to as usize % 3) {
                    Ok(true) => advance = true,
                    Ok(false) => {
                        if self.wrem == before {
                            self.cstate = ChildState::BlockedWrite(to % 3);
                            return false;
                        }
                    }
                    Err(()) => return self.child_die_sigpipe(),
                }
            }
            COp::Flood { to, chunk } => {
                let t = to as usize % 3;
                if !self.child_open[t] || self.pipes[t].is_none() || t == 0 {
                    advance = true;
                } else {
                    if self.wrem == 0 {
                        self.wrem = chunk.max(1) as u64;
                    }
                    let before = self.wrem;
                    match self.child_push_gen(t) {
                        Ok(_) => {
                            if self.wrem == before {
                                self.cstate = ChildState::BlockedWrite(to % 3);
                                return false;
                            }
                        }
                        Err(()) => return self.child_die_sigpipe(),
                    }
                }
            }
            COp::FloodUntilInput { to, chunk, need } => {
                let t = to as usize % 3;
                let in_ready = match self.pipes[0].as_ref() {
                    None => true,
                    Some(p) => !self.child_open[0] || p.len() > 0 || !p.writer_open,
                };
                let can_write = t != 0 && self.child_open[t] && self.pipes[t].is_some();
                if in_ready {
                    match self.child_do_read(chunk.max(1) as usize) {
                        Some(v) => {
                            self.flood_rx += v.len() as u64;
                            if v.is_empty() || (need > 0 && self.flood_rx >= need as u64) {
                                advance = true;
                            }
                        }
                        None => {
                            self.cstate = ChildState::BlockedRead;
                            return false;
                        }
                    }
                } else if !can_write {
                    self.cstate = ChildState::BlockedRead;
                    return false;
                } else {
                    if self.wrem == 0 {
                        self.wrem = chunk.max(1) as u64;
                    }
                    let before = self.wrem;
                    match self.child_push_gen(t) {
                        Ok(_) => {
                            if self.wrem == before {
                                self.cstate = ChildState::BlockedRW(to % 3);
                                return false;
                            }
                        }
                        Err(()) => return self.child_die_sigpipe(),
                    }
                }
            }
            COp::Close(s) => {
                self.child_close(s as usize % 3);
                advance = true;
            }
            COp::Sleep(ns) => {
                self.cstate = ChildState::Sleeping(self.now + ns as i64);
                return true;
            }
            COp::Exit => {
                self.child_finish();
                return true;
            }
        }
        if advance {
            self.pc += 1;
            self.in_op = false;
            self.carry.clear();
            self.wrem = 0;
            self.flood_rx = 0;
            if self.pc >= self.cfg.script.len() {
                self.child_finish();
            }
        }
        true
    }

    /// Re-evaluate a blocked child: make it runnable if its condition changed.
    fn child_unblock(&mut self) {
        match self.cstate {
            ChildState::BlockedRead => {
                let ok = match self.pipes[0].as_ref() {
                    None => true,
                    Some(p) => p.len() > 0 || !p.writer_open,
                };
                if ok {
                    self.cstate = ChildState::Runnable;
                }
            }
            ChildState::BlockedWrite(to) => {
                let n = if !self.carry.is_empty() { self.carry.len() } else { self.wrem as usize };
                let ok = match self.pipes[to as usize].as_ref() {
                    None => true,
                    Some(p) => !p.reader_open || p.accept_now(n.max(1)) > 0,
                };
                if ok {
                    self.cstate = ChildState::Runnable;
                }
            }
            ChildState::BlockedRW(to) => {
                let rd = match self.pipes[0].as_ref() {
                    None => true,
                    Some(p) => p.len() > 0 || !p.writer_open,
                };
                let wr = match self.pipes[to as usize].as_ref() {
                    None => true,
                    Some(p) => !p.reader_open || p.accept_now((self.wrem as usize).max(1)) > 0,
                };
                if rd || wr {
                    self.cstate = ChildState::Runnable;
                }
            }
            ChildState::Sleeping(t) => {
                if self.now >= t {
                    self.cstate = ChildState::Runnable;
                    self.pc += 1;
                    self.in_op = false;
                    if self.pc >= self.cfg.script.len() {
                        self.child_finish();
                    }
                }
            }
            _ => {}
        }
    }

    /// The parent blocks in waitpid() with all its pipe ends as they are: can the
    /// child get to its end?  (Exec::capture waits while the Communicator is alive.)
    /// Some(true) = it finishes, Some(false) = it is blocked for good, None = step budget used up.
    pub fn wait_child(&mut self) -> Option<bool> {
        for _ in 0..50_000_000u32 {
            self.child_unblock();
            match self.cstate {
                ChildState::Done => return Some(true),
                ChildState::Runnable => {
                    self.child_step();
                }
                ChildState::Sleeping(t) => {
                    self.now = self.now.max(t);
                }
                _ => return Some(false),
            }
        }
        None
    }

    /// Run up to `max` child steps; stops when the child cannot progress.
    pub fn run_child(&mut self, max: u32) -> u32 {
        let mut done = 0;
        while done < max {
            self.child_unblock();
            if self.cstate != ChildState::Runnable {
                break;
            }
            if !self.child_step() {
                break;
            }
            done += 1;
        }
        done
    }

    // ----- parent --------------------------------------------------------

    fn budget(&self) -> u64 {
        let moved = self.input_len as u64 + self.wrote[1].len() as u64 + self.wrote[2].len() as u64;
        8 * moved + 512 + self.budget_extra
    }

    /// Common prologue of every simulated parent call.
    fn enter(&mut self, is_poll: bool) -> Result<(), c_int> {
        if let Some(v) = &self.verdict {
            self.post_verdict_calls += 1;
            if self.post_verdict_calls > 100_000 {
                // the code under test ignores errors and loops: report and stop
                eprintln!("simk: code under test keeps calling after verdict {:?}; aborting worker", v);
                std::process::exit(97);
            }
            return Err(match v {
                Verdict::Deadlock(_) => E_DEADLOCK,
                Verdict::Spin(_) => E_SPIN,
                Verdict::Overrun(_) => E_OVERRUN,
            });
        }
        self.ncalls += 1;
        self.idle_streak += 1;
        if self.idle_streak > 400 {
            self.verdict = Some(Verdict::Spin(format!("{} consecutive parent calls without moving a byte, closing a stream or blocking", self.idle_streak)));
            return Err(E_SPIN);
        }
        if self.cfg.script.iter().all(|o| !matches!(o, COp::Flood { .. })) && self.wrote[1].len() + self.wrote[2].len() > (16 << 20) + 16 * self.input_len {
            // a child that produces output only until its input has arrived (FloodUntilInput)
            // stops within a few MiB when the input is being delivered
            self.verdict = Some(Verdict::Spin(format!("the exchange does not come to an end: the child has produced {} bytes while waiting for its input, of which {} of {} bytes were delivered", self.wrote[1].len() + self.wrote[2].len(), self.input_accepted.len(), self.input_len)));
            return Err(E_SPIN);
        }
        if self.ncalls + self.clock_reads / 4 > self.budget() {
            self.verdict = Some(Verdict::Spin(format!("{} parent calls for {} bytes moved", self.ncalls, self.budget() / 8)));
            return Err(E_SPIN);
        }
        if let Some(d) = self.cur_deadline {
            if self.now > d {
                if is_poll {
                    self.polls_after_deadline += 1;
                } else {
                    self.io_after_deadline += 1;
                }
                if self.polls_after_deadline + self.io_after_deadline > 200 {
                    self.verdict = Some(Verdict::Overrun(format!("still running {} ns after the deadline", self.now - d)));
                    return Err(E_OVERRUN);
                }
            }
        }
        // scheduled child steps
        let idx = (self.ncalls - 1) as usize;
        let k: u32 = if idx < self.cfg.sched.len() {
            self.cfg.sched[idx] as u32
        } else {
            match self.cfg.sched_tail {
                0 => 0,
                1 => u32::MAX,
                k => (k - 1) as u32,
            }
        };
        if k > 0 {
            self.run_child(k.min(1_000_000));
        }
        self.now += self.cfg.cost_ns as i64;
        Ok(())
    }

    fn child_done(&self) -> bool {
        self.cstate == ChildState::Done
    }

    fn log(&mut self, kind: PKind, obj: u32, req: i64, ret: i64, t_enter: i64, revents: [i16; 3], done_before: bool) {
        if self.trace {
            eprintln!(
                "  [t={:>12}] parent {:?} obj={} req={} -> {} revents={:?} child={:?} pc={}",
                self.now - 1_000_000_000_000,
                kind,
                obj,
                req,
                ret,
                revents,
                self.cstate,
                self.pc
            );
        }
        match kind {
            PKind::Read | PKind::Write => {
                if ret > 0 {
                    self.idle_streak = 0;
                }
            }
            PKind::Close => self.idle_streak = 0,
            PKind::Poll => {
                if self.now - t_enter > self.cfg.cost_ns as i64 {
                    self.idle_streak = 0; // the poll really waited
                }
            }
        }
        let call = self.cur_call;
        self.ops.push(POp { kind, obj, req, ret, t_enter, t_leave: self.now, revents, child_done_before: done_before, call });
    }

    fn deadlock(&mut self, what: &str) -> isize {
        let d = format!("parent blocked in {} while child is {:?} at script op {}", what, self.cstate, self.pc);
        if self.trace {
            eprintln!("  DEADLOCK: {}", d);
        }
        self.verdict = Some(Verdict::Deadlock(d));
        ip::set_errno(E_DEADLOCK);
        -1
    }

    /// Let time / the child move while the parent is blocked.  Returns false
    /// if nothing can ever change (deadlock) or the optional deadline passed.
    fn block_step(&mut self, deadline: Option<i64>) -> BlockStep {
        let before = self.cstate;
        self.child_unblock();
        if before != self.cstate && self.cstate == ChildState::Done {
            return BlockStep::Progress;
        }
        match self.cstate {
            ChildState::Runnable => {
                self.child_step();
                BlockStep::Progress
            }
            ChildState::Sleeping(t) => {
                if let Some(d) = deadline {
                    if t > d {
                        self.now = self.now.max(d);
                        return BlockStep::TimedOut;
                    }
                }
                self.now = self.now.max(t);
                self.child_unblock();
                BlockStep::Progress
            }
            _ => match deadline {
                Some(d) => {
                    self.now = self.now.max(d);
                    BlockStep::TimedOut
                }
                None => BlockStep::Stuck,
            },
        }
    }
}

enum BlockStep {
    Progress,
    TimedOut,
    Stuck,
}

impl SimHooks for Sim {
    fn read(&mut self, obj: u32, buf: &mut [u8]) -> isize {
        let t_enter = self.now;
        let done_before = self.child_done();
        if let Err(e) = self.enter(false) {
            ip::set_errno(e);
            return -1;
        }
        let o = obj as usize;
        if o == 0 || o > 2 {
            ip::set_errno(libc::EBADF);
            return -1;
        }
        let mut want = buf.len();
        let idx = self.nread;
        self.nread += 1;
        let mut cut = false;
        if idx < self.cfg.short_read.len() && self.cfg.short_read[idx] != 0 {
            let c = self.cfg.short_read[idx] as usize;
            if c < want {
                want = c;
                cut = true;
            }
        }
        loop {
            let p = self.pipes[o].as_mut().unwrap();
            if p.len() > 0 {
                let avail = p.len();
                let n = p.pop(&mut buf[..want.min(avail)]);
                if cut && n == want && avail > want {
                    self.short_reads_hit += 1;
                }
                self.log(PKind::Read, obj, buf.len() as i64, n as i64, t_enter, [-1; 3], done_before);
                return n as isize;
            }
            if !p.writer_open {
                self.log(PKind::Read, obj, buf.len() as i64, 0, t_enter, [-1; 3], done_before);
                return 0;
            }
            if want == 0 {
                self.log(PKind::Read, obj, 0, 0, t_enter, [-1; 3], done_before);
                return 0;
            }
            if self.parent_blocked_first.is_none() {
                self.parent_blocked_first = Some("read");
            }
            match self.block_step(None) {
                BlockStep::Progress => continue,
                _ => {
                    let r = self.deadlock(if o == 1 { "read(stdout)" } else { "read(stderr)" });
                    self.log(PKind::Read, obj, buf.len() as i64, -1, t_enter, [-1; 3], done_before);
                    return r;
                }
            }
        }
    }

    fn write(&mut self, obj: u32, buf: &[u8]) -> isize {
        let t_enter = self.now;
        let done_before = self.child_done();
        if let Err(e) = self.enter(false) {
            ip::set_errno(e);
            return -1;
        }
        if obj != 0 {
            ip::set_errno(libc::EBADF);
            return -1;
        }
        let idx = self.nwrite;
        self.nwrite += 1;
        let n = buf.len();
        if n == 0 {
            self.log(PKind::Write, obj, 0, 0, t_enter, [-1; 3], done_before);
            return 0;
        }
        let flavour = self.cfg.flavour;
        let mut cutto: Option<usize> = None;
        if idx < self.cfg.short_write.len() && self.cfg.short_write[idx] != 0 {
            let c = self.cfg.short_write[idx] as usize;
            // a short count is legitimate on a pipe only above PIPE_BUF; on a
            // byte stream at any size
            if c < n && (flavour == Flavour::Stream || n > PIPE_BUF) {
                cutto = Some(c);
            }
        }
        let mut written = 0usize;
        loop {
            let p = self.pipes[0].as_mut().unwrap();
            if !p.reader_open {
                if written > 0 {
                    break;
                }
                ip::set_errno(libc::EPIPE);
                self.log(PKind::Write, obj, n as i64, -1, t_enter, [-1; 3], done_before);
                return -1;
            }
            let rem = n - written;
            let mut k = if flavour == Flavour::Stream { (p.cap - p.len()).min(rem) } else { p.accept_now(rem) };
            if flavour == Flavour::Stream && rem <= PIPE_BUF && cutto.is_none() && k < rem {
                k = 0; // without an interruption a small write goes through whole
            }
            if let Some(c) = cutto {
                if written + k >= c {
                    k = c - written;
                }
            }
            if k > 0 {
                let data = &buf[written..written + k];
                p.push(data, rem);
                self.input_accepted.extend_from_slice(data);
                written += k;
            }
            if written == n {
                break;
            }
            if let Some(c) = cutto {
                if written >= c {
                    self.short_writes_hit += 1;
                    break;
                }
            }
            if self.parent_blocked_first.is_none() {
                self.parent_blocked_first = Some("write");
            }
            match self.block_step(None) {
                BlockStep::Progress => continue,
                _ => {
                    if written > 0 && flavour == Flavour::Stream {
                        break;
                    }
                    let r = self.deadlock("write(stdin)");
                    self.log(PKind::Write, obj, n as i64, -1, t_enter, [-1; 3], done_before);
                    return r;
                }
            }
        }
        self.log(PKind::Write, obj, n as i64, written as i64, t_enter, [-1; 3], done_before);
        written as isize
    }

    fn close(&mut self, obj: u32) -> c_int {
        let t_enter = self.now;
        let done_before = self.child_done();
        // close never fails and never blocks; it is not subject to verdicts
        self.ncalls += 1;
        let o = obj as usize;
        if o < 3 {
            if let Some(p) = self.pipes[o].as_mut() {
                if o == 0 {
                    p.writer_open = false;
                } else {
                    p.reader_open = false;
                }
            }
        }
        self.log(PKind::Close, obj, 0, 0, t_enter, [-1; 3], done_before);
        0
    }

    fn poll(&mut self, fds: &mut [pollfd], timeout_ms: c_int) -> c_int {
        let t_enter = self.now;
        let done_before = self.child_done();
        if let Err(e) = self.enter(true) {
            ip::set_errno(e);
            return -1;
        }
        let deadline = if timeout_ms < 0 { None } else { Some(self.now + timeout_ms as i64 * 1_000_000) };
        let mut mask = 0u32;
        let pidx = self.npoll;
        self.npoll += 1;
        let mut interrupt_ms: i64 = self.cfg.eintr.get(pidx).copied().unwrap_or(0) as i64;
        loop {
            let mut cnt = 0;
            let mut rev = [-1i16; 3];
            for f in fds.iter_mut() {
                f.revents = 0;
                if f.fd < 0 {
                    continue;
                }
                let obj = match ip::FD_ROUTE.get(f.fd as usize).map(|r| r.load(std::sync::atomic::Ordering::Relaxed)) {
                    Some(r) if r != 0 => (r - 1) as usize,
                    _ => {
                        f.revents = libc::POLLNVAL;
                        cnt += 1;
                        continue;
                    }
                };
                mask |= 1 << obj;
                let p = self.pipes[obj].as_ref().unwrap();
                let mut r: i16 = 0;
                if obj == 0 {
                    // write end
                    // Linux pipe_poll: POLLOUT iff writable (whether or not a
                    // reader exists), POLLERR iff no reader
                    if p.writable() && f.events & libc::POLLOUT != 0 {
                        r |= libc::POLLOUT;
                    }
                    if !p.reader_open {
                        r |= libc::POLLERR;
                    }
                } else {
                    if p.len() > 0 && f.events & libc::POLLIN != 0 {
                        r |= libc::POLLIN;
                    }
                    if !p.writer_open {
                        r |= libc::POLLHUP;
                    }
                }
                f.revents = r;
                rev[obj] = r;
                if r != 0 {
                    cnt += 1;
                }
            }
            if cnt > 0 {
                self.log(PKind::Poll, mask, timeout_ms as i64, cnt as i64, t_enter, rev, done_before);
                return cnt;
            }
            if timeout_ms == 0 {
                self.log(PKind::Poll, mask, 0, 0, t_enter, rev, done_before);
                return 0;
            }
            if self.parent_blocked_first.is_none() {
                self.parent_blocked_first = Some("poll");
            }
            if interrupt_ms > 0 {
                // a signal handler runs in the parent while it is blocked here
                let mut d = interrupt_ms * 1_000_000;
                if timeout_ms > 0 {
                    d = d.min(timeout_ms as i64 * 1_000_000 / 2);
                }
                interrupt_ms = 0;
                if d > 0 {
                    self.now += d;
                    self.eintr_hit += 1;
                    ip::set_errno(libc::EINTR);
                    self.log(PKind::Poll, mask, timeout_ms as i64, -1, t_enter, rev, done_before);
                    return -1;
                }
            }
            match self.block_step(deadline) {
                BlockStep::Progress => {
                    if let Some(d) = deadline {
                        if self.now >= d {
                            // time passed while the child ran (sleep wake-up exactly at d)
                        }
                    }
                    continue;
                }
                BlockStep::TimedOut => {
                    self.log(PKind::Poll, mask, timeout_ms as i64, 0, t_enter, rev, done_before);
                    return 0;
                }
                BlockStep::Stuck => {
                    let r = self.deadlock("poll(-1)") as c_int;
                    self.log(PKind::Poll, mask, timeout_ms as i64, -1, t_enter, rev, done_before);
                    return r;
                }
            }
        }
    }

    fn clock_tick(&mut self) {
        self.clock_reads += 1;
        ip::VCLOCK_NS.store(self.now, std::sync::atomic::Ordering::Relaxed);
        if self.clock_reads > 16 * self.budget() && self.verdict.is_none() {
            self.verdict = Some(Verdict::Spin(format!("{} clock reads", self.clock_reads)));
        }
    }
    fn sleep(&mut self, ns: i64) {
        self.now += ns.max(0);
        ip::VCLOCK_NS.store(self.now, std::sync::atomic::Ordering::Relaxed);
    }
}

// ---------------------------------------------------------------------------
// Self-test: simulated pipe vs. a real non-blocking kernel pipe
// ---------------------------------------------------------------------------

pub fn selftest_pipe_model(seed: u64, rounds: u32) -> Result<u32, String> {
    use crate::runner::mix;
    let mut checked = 0;
    for r in 0..rounds {
        let mut s = mix(seed, r as u64);
        let mut next = |m: u64| -> u64 {
            s = mix(s, 0x1234);
            s % m
        };
        let cap = [4096usize, 8192, 16384, 65536][next(4) as usize];
        let mut fds = [0 as c_int; 2];
        unsafe {
            if ip::raw_pipe2(fds.as_mut_ptr(), libc::O_NONBLOCK) != 0 {
                return Err("pipe2 failed".into());
            }
            let got = libc::fcntl(fds[1], libc::F_SETPIPE_SZ, cap as c_int);
            if got != cap as c_int {
                ip::raw_close(fds[0]);
                ip::raw_close(fds[1]);
                return Err(format!("F_SETPIPE_SZ({}) -> {}", cap, got));
            }
        }
        let mut model = Pipe::new(cap, Flavour::LinuxSlots);
        let mut pos = 0u64;
        for step in 0..200 {
            let is_write = next(100) < 55;
            if is_write {
                let n = match next(6) {
                    0 => 1,
                    1 => 1 + next(100) as usize,
                    2 => 4096,
                    3 => 1 + next(4096) as usize,
                    4 => 4097 + next(9000) as usize,
                    _ => 4000 + next(200) as usize,
                };
                let data: Vec<u8> = (0..n as u64).map(|i| content_byte(Content::Hash, 1, pos + i)).collect();
                let real = unsafe { ip::raw_write(fds[1], data.as_ptr() as *const _, n) };
                let k = model.accept_now(n);
                let exp: isize = if k == 0 { -1 } else { k as isize };
                if real != exp {
                    unsafe {
                        ip::raw_close(fds[0]);
                        ip::raw_close(fds[1]);
                    }
                    return Err(format!("round {} step {}: write({}) real={} model={} (cap {}, model len {}, slots {:?})", r, step, n, real, exp, cap, model.len(), model.slots));
                }
                if k > 0 {
                    model.push(&data[..k], n);
                    pos += k as u64;
                }
            } else {
                let n = match next(4) {
                    0 => 1,
                    1 => 1 + next(5000) as usize,
                    2 => 4096,
                    _ => 65536,
                };
                let mut rb = vec![0u8; n];
                let mut mb = vec![0u8; n];
                let real = unsafe { ip::raw_read(fds[0], rb.as_mut_ptr() as *mut _, n) };
                let m = model.pop(&mut mb);
                let exp: isize = if m == 0 { -1 } else { m as isize };
                if real != exp || (m > 0 && rb[..m] != mb[..m]) {
                    unsafe {
                        ip::raw_close(fds[0]);
                        ip::raw_close(fds[1]);
                    }
                    return Err(format!("round {} step {}: read({}) real={} model={}", r, step, n, real, exp));
                }
            }
            // poll comparison
            let mut pf = [pollfd { fd: fds[0], events: libc::POLLIN, revents: 0 }, pollfd { fd: fds[1], events: libc::POLLOUT, revents: 0 }];
            unsafe { libc::syscall(libc::SYS_poll, pf.as_mut_ptr(), 2, 0) };
            let real_in = pf[0].revents & libc::POLLIN != 0;
            let real_out = pf[1].revents & libc::POLLOUT != 0;
            if real_in != (model.len() > 0) || real_out != model.writable() {
                unsafe {
                    ip::raw_close(fds[0]);
                    ip::raw_close(fds[1]);
                }
                return Err(format!("round {} step {}: poll real(in={},out={}) model(in={},out={}) cap {} slots {:?}", r, step, real_in, real_out, model.len() > 0, model.writable(), cap, model.slots));
            }
            checked += 1;
        }
        unsafe {
            ip::raw_close(fds[0]);
            ip::raw_close(fds[1]);
        }
    }
    Ok(checked)
}
