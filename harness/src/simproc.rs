//! Engine E-B `simproc`: simulated process table and virtual clock behind the
//! interposed fork/waitpid/kill/clock_gettime/nanosleep.  `fork()` does not
//! fork (fake pid); the parent branch of the crate's start-up code then reads
//! end-of-file from the status pipe and hands out a `Popen` in state Running.
use crate::interpose::{self as ip, SimHooks};
use libc::{c_int, pid_t, pollfd};
use serde::{Deserialize, Serialize};

#[derive(Clone, Copy, Debug, PartialEq, Eq, Serialize, Deserialize)]
pub enum Reaction {
    /// die of that very signal after `delay` ns
    Die(u64),
    Ignore,
    /// handler calls exit(code) after `delay` ns
    Exit(u8, u64),
}

#[derive(Clone, Debug, Serialize, Deserialize)]
pub struct ProcPlan {
    /// natural exit: ns after the start of the history (None = runs forever)
    pub exit_after: Option<u64>,
    /// natural exit status: Ok(code) or Err((signal, core))
    pub exit_code: u8,
    pub exit_signal: Option<(u8, bool)>,
    /// reaction to SIGTERM and to other catchable signals; SIGKILL always kills
    pub on_term: Reaction,
    pub on_other: Reaction,
    pub kill_delay: u64,
    /// cost of one system call in virtual ns
    pub cost_ns: u32,
    /// PopenConfig::setpgid (the child is a process-group leader)
    #[serde(default)]
    pub setpgid: bool,
    /// the first n blocking waitpid() calls on the still-running child are
    /// interrupted by a signal handler installed without SA_RESTART (-1/EINTR)
    #[serde(default)]
    pub eintr_waits: u8,
}

#[derive(Clone, Debug, PartialEq)]
pub enum Ev {
    Waitpid { pid: i32, opts: i32, ret: i32, status: i32, err: i32, t: i64 },
    Kill { pid: i32, sig: i32, t: i64, target_reaped: bool, target_dead: bool, ret: i32 },
    Sleep { ns: i64, t: i64 },
}

/// Per-operation aggregates (kept exactly even when the event log is capped).
#[derive(Clone, Copy, Debug, Default)]
pub struct Agg {
    pub nwait: u64,
    pub nsleep: u64,
    pub blocking_wait: bool,
    /// two status checks without a positive sleep in between
    pub busy_wait: bool,
    pub last_was_wait: bool,
    /// latest instant any sleep extends to
    pub max_sleep_end: i64,
    pub dropped_events: u64,
}

pub const LOG_CAP_PER_OP: usize = 4096;

pub struct SimProc {
    pub pid: i32,
    pub now: i64,
    pub t0: i64,
    pub cost: i64,
    pub exit_at: Option<i64>,
    pub status_word: i32,
    pub reaped: bool,
    pub reaped_externally: bool,
    pub plan: ProcPlan,
    pub log: Vec<Ev>,
    pub hang: bool,
    pub calls: u64,
    pub clock_reads: u64,
    pub budget: u64,
    pub over_budget: bool,
    pub agg: Agg,
    pub op_log_start: usize,
    pub eintr_left: u8,
    pub eintr_hit: u32,
    /// job-control state: a stopped child does not run (its exit is put off) and
    /// is reported by waitpid only to callers that ask with WUNTRACED
    pub stopped: bool,
    pub stopped_at: i64,
    pub stop_sig: i32,
    pub stop_unreported: bool,
    pub cont_unreported: bool,
    /// signal that arrived while stopped; acted upon when the child continues
    pub pending_sig: Option<i32>,
    pub stops: u32,
}

pub fn status_word_exit(code: u8) -> i32 {
    (code as i32) << 8
}
pub fn status_word_signal(sig: u8, core: bool) -> i32 {
    (sig as i32 & 0x7f) | if core { 0x80 } else { 0 }
}

impl SimProc {
    pub fn new(pid: i32, plan: ProcPlan) -> SimProc {
        let t0 = 5_000_000_000_000i64;
        let status_word = match plan.exit_signal {
            Some((s, core)) => status_word_signal(s, core),
            None => status_word_exit(plan.exit_code),
        };
        let eintr = plan.eintr_waits;
        let mut sp = SimProc {
            pid,
            now: t0,
            t0,
            cost: plan.cost_ns as i64,
            exit_at: plan.exit_after.map(|d| t0.saturating_add(d.min(i64::MAX as u64 / 4) as i64)),
            status_word,
            reaped: false,
            reaped_externally: false,
            plan,
            log: vec![],
            hang: false,
            calls: 0,
            clock_reads: 0,
            budget: 200_000_000,
            over_budget: false,
            agg: Agg::default(),
            op_log_start: 0,
            eintr_left: 0,
            eintr_hit: 0,
            stopped: false,
            stopped_at: 0,
            stop_sig: 0,
            stop_unreported: false,
            cont_unreported: false,
            pending_sig: None,
            stops: 0,
        };
        sp.eintr_left = eintr;
        sp
    }
    pub fn dead(&self) -> bool {
        !self.stopped && matches!(self.exit_at, Some(t) if self.now >= t)
    }
    /// SIGCONT (or the harness before a final drop): the child runs again; the
    /// time it spent stopped does not count towards its exit
    pub fn resume(&mut self) {
        if self.stopped {
            self.stopped = false;
            let d = self.now - self.stopped_at;
            if let Some(x) = self.exit_at.as_mut() {
                *x = x.saturating_add(d.max(0));
            }
            self.stop_unreported = false;
            self.cont_unreported = true;
        }
    }
    pub fn advance(&mut self, ns: u64) {
        self.now = self.now.saturating_add(ns.min(i64::MAX as u64 / 4) as i64);
        ip::VCLOCK_NS.store(self.now, std::sync::atomic::Ordering::Relaxed);
    }
    /// someone else's waitpid() consumes the dead child
    pub fn external_reap(&mut self) -> bool {
        if self.dead() && !self.reaped {
            self.reaped = true;
            self.reaped_externally = true;
            true
        } else {
            false
        }
    }
    fn tick(&mut self) {
        self.calls += 1;
        self.now += self.cost;
        if self.calls > self.budget {
            self.over_budget = true;
        }
        ip::VCLOCK_NS.store(self.now, std::sync::atomic::Ordering::Relaxed);
    }
}

impl SimHooks for SimProc {
    fn read(&mut self, _obj: u32, _buf: &mut [u8]) -> isize {
        ip::set_errno(libc::EBADF);
        -1
    }
    fn write(&mut self, _obj: u32, _buf: &[u8]) -> isize {
        ip::set_errno(libc::EBADF);
        -1
    }
    fn close(&mut self, _obj: u32) -> c_int {
        0
    }
    fn poll(&mut self, _fds: &mut [pollfd], _timeout_ms: c_int) -> c_int {
        ip::set_errno(libc::EINVAL);
        -1
    }
    fn clock_tick(&mut self) {
        self.clock_reads += 1;
        ip::VCLOCK_NS.store(self.now, std::sync::atomic::Ordering::Relaxed);
    }
    fn sleep(&mut self, ns: i64) {
        self.calls += 1;
        if self.calls > self.budget {
            self.over_budget = true;
        }
        self.agg.nsleep += 1;
        if ns > 0 {
            self.agg.last_was_wait = false;
        }
        self.agg.max_sleep_end = self.agg.max_sleep_end.max(self.now.saturating_add(ns.max(0)));
        if self.log.len() - self.op_log_start < LOG_CAP_PER_OP {
            self.log.push(Ev::Sleep { ns, t: self.now });
        } else {
            self.agg.dropped_events += 1;
        }
        self.now = self.now.saturating_add(ns.max(0));
        ip::VCLOCK_NS.store(self.now, std::sync::atomic::Ordering::Relaxed);
    }
    fn waitpid(&mut self, pid: pid_t, status: *mut c_int, opts: c_int) -> pid_t {
        self.tick();
        let t = self.now;
        self.agg.nwait += 1;
        if opts & libc::WNOHANG == 0 {
            self.agg.blocking_wait = true;
        }
        if self.agg.last_was_wait {
            self.agg.busy_wait = true;
        }
        self.agg.last_was_wait = true;
        if self.over_budget {
            ip::set_errno(libc::EINTR);
            self.log.push(Ev::Waitpid { pid, opts, ret: -1, status: 0, err: libc::EINTR, t });
            return -1;
        }
        if pid != self.pid || self.reaped {
            ip::set_errno(libc::ECHILD);
            self.log.push(Ev::Waitpid { pid, opts, ret: -1, status: 0, err: libc::ECHILD, t });
            return -1;
        }
        if self.stopped && self.stop_unreported && opts & libc::WUNTRACED != 0 {
            self.stop_unreported = false;
            let w = (self.stop_sig << 8) | 0x7f;
            if !status.is_null() {
                unsafe { *status = w };
            }
            self.log.push(Ev::Waitpid { pid, opts, ret: pid, status: w, err: 0, t });
            return pid;
        }
        if !self.stopped && self.cont_unreported && opts & libc::WCONTINUED != 0 && !self.dead() {
            self.cont_unreported = false;
            if !status.is_null() {
                unsafe { *status = 0xffff };
            }
            self.log.push(Ev::Waitpid { pid, opts, ret: pid, status: 0xffff, err: 0, t });
            return pid;
        }
        if opts & libc::WNOHANG == 0 && self.stopped {
            // a blocking wait on a stopped child returns only when somebody continues it
            self.hang = true;
            ip::set_errno(libc::EINTR);
            self.log.push(Ev::Waitpid { pid, opts, ret: -1, status: 0, err: libc::EINTR, t });
            return -1;
        }
        if opts & libc::WNOHANG == 0 && !self.dead() && self.eintr_left > 0 {
            // a signal handler ran while the call was blocked
            self.eintr_left -= 1;
            self.eintr_hit += 1;
            ip::set_errno(libc::EINTR);
            self.log.push(Ev::Waitpid { pid, opts, ret: -1, status: 0, err: libc::EINTR, t });
            return -1;
        }
        if opts & libc::WNOHANG == 0 && !self.dead() {
            match self.exit_at {
                Some(x) => {
                    self.now = self.now.max(x);
                    ip::VCLOCK_NS.store(self.now, std::sync::atomic::Ordering::Relaxed);
                }
                None => {
                    // blocking wait on an immortal child: the call would never return
                    self.hang = true;
                    ip::set_errno(libc::EINTR);
                    self.log.push(Ev::Waitpid { pid, opts, ret: -1, status: 0, err: libc::EINTR, t });
                    return -1;
                }
            }
        }
        if self.dead() {
            self.reaped = true;
            if !status.is_null() {
                unsafe { *status = self.status_word };
            }
            self.log.push(Ev::Waitpid { pid, opts, ret: pid, status: self.status_word, err: 0, t: self.now });
            return pid;
        }
        if !status.is_null() {
            // a real kernel leaves *status alone for a WNOHANG miss; put garbage
            // there to catch code that trusts it
            unsafe { *status = 0x0b0b };
        }
        if self.log.len() - self.op_log_start < LOG_CAP_PER_OP {
            self.log.push(Ev::Waitpid { pid, opts, ret: 0, status: 0, err: 0, t });
        } else {
            self.agg.dropped_events += 1;
        }
        0
    }
    fn kill(&mut self, pid: pid_t, sig: c_int) -> c_int {
        self.tick();
        let dead = self.dead();
        let reaped = self.reaped;
        let mine = pid == self.pid;
        let ret;
        if !mine || reaped {
            // after reaping the number belongs to nobody (or to somebody else)
            ip::set_errno(libc::ESRCH);
            ret = -1;
        } else {
            ret = 0;
            let job_stop = sig == libc::SIGSTOP || sig == libc::SIGTSTP || sig == libc::SIGTTIN || sig == libc::SIGTTOU;
            if !dead && job_stop {
                if !self.stopped {
                    self.stopped = true;
                    self.stopped_at = self.now;
                    self.stop_sig = sig;
                    self.stop_unreported = true;
                    self.cont_unreported = false;
                    self.stops += 1;
                }
            } else if !dead && sig == libc::SIGCONT {
                self.resume();
                if let Some(p) = self.pending_sig.take() {
                    // delivered now
                    let _ = self.kill(pid, p);
                    self.log.pop();
                }
            } else if !dead && self.stopped && sig != 0 && sig != libc::SIGKILL {
                // stays pending until the child continues
                self.pending_sig = Some(sig);
            } else if !dead && sig != 0 {
                if sig == libc::SIGKILL {
                    self.resume();
                    self.cont_unreported = false;
                }
                let reaction = if sig == libc::SIGKILL {
                    Reaction::Die(self.plan.kill_delay)
                } else if sig == libc::SIGTERM {
                    self.plan.on_term
                } else if sig == libc::SIGSTOP || sig == libc::SIGCONT || sig == libc::SIGCHLD || sig == libc::SIGURG || sig == libc::SIGWINCH {
                    Reaction::Ignore
                } else {
                    self.plan.on_other
                };
                match reaction {
                    Reaction::Ignore => {}
                    Reaction::Die(d) => {
                        let at = self.now.saturating_add(d as i64);
                        if self.exit_at.map(|x| at < x).unwrap_or(true) {
                            self.exit_at = Some(at);
                            self.status_word = status_word_signal(sig as u8, false);
                        }
                    }
                    Reaction::Exit(c, d) => {
                        let at = self.now.saturating_add(d as i64);
                        if self.exit_at.map(|x| at < x).unwrap_or(true) {
                            self.exit_at = Some(at);
                            self.status_word = status_word_exit(c);
                        }
                    }
                }
            }
        }
        self.log.push(Ev::Kill { pid, sig, t: self.now, target_reaped: !mine || reaped, target_dead: dead, ret });
        ret
    }
}
