//! Link-time interposition of the libc entry points used by the `subprocess`
//! crate and by `std`.  The definitions live in this crate (one codegen unit),
//! are pulled into every executable that uses the crate, and therefore win
//! over libc.so at static link time.
//!
//! Default behaviour of every function is a raw system call (passthrough).
//! On top of that the layer offers, all of it without allocating, locking or
//! formatting (it also runs in forked children and under the allocation
//! probe):
//!   * routing of selected descriptors / pids / the monotonic clock to a
//!     simulator (`SimHooks`),
//!   * a fault plan (fail the k-th call of a kind with an errno),
//!   * a fixed-capacity log of process-related calls,
//!   * a registry of pipes created through `pipe()`,
//!   * fake fork (returns a made-up pid without forking),
//!   * arming of the allocation probe in the forked child,
//!   * a cooperative scheduler hook (yield point at each call).

#![allow(clippy::missing_safety_doc)]

use libc::{c_char, c_int, c_long, c_void, nfds_t, pid_t, pollfd, size_t, ssize_t, timespec};
use std::sync::atomic::{AtomicBool, AtomicI32, AtomicI64, AtomicPtr, AtomicU32, AtomicU64, AtomicUsize, Ordering::*};

// ---------------------------------------------------------------------------
// errno
// ---------------------------------------------------------------------------

#[inline]
pub fn set_errno(e: c_int) {
    unsafe { *libc::__errno_location() = e }
}
#[inline]
pub fn get_errno() -> c_int {
    unsafe { *libc::__errno_location() }
}

#[inline]
unsafe fn ret_sys(r: c_long) -> c_long {
    // libc::syscall already translates to -1/errno.
    r
}

// ---------------------------------------------------------------------------
// Call kinds (fault plan, counters, log)
// ---------------------------------------------------------------------------

pub const K_PIPE: usize = 0;
pub const K_FCNTL: usize = 1;
pub const K_FORK: usize = 2;
pub const K_CHDIR: usize = 3;
pub const K_DUP2: usize = 4;
pub const K_SETUID: usize = 5;
pub const K_SETGID: usize = 6;
pub const K_SETPGID: usize = 7;
pub const K_EXEC: usize = 8;
pub const K_WAITPID: usize = 9;
pub const K_KILL: usize = 10;
pub const K_READ: usize = 11;
pub const K_WRITE: usize = 12;
pub const K_CLOSE: usize = 13;
pub const K_POLL: usize = 14;
pub const K_SLEEP: usize = 15;
pub const K_CLOCK: usize = 16;
pub const K_SIGMASK: usize = 17;
pub const K_SIGNAL: usize = 18;
pub const NKINDS: usize = 19;

pub const KIND_NAMES: [&str; NKINDS] = [
    "pipe", "fcntl", "fork", "chdir", "dup2", "setuid", "setgid", "setpgid", "exec", "waitpid",
    "kill", "read", "write", "close", "poll", "sleep", "clock", "sigmask", "signal",
];

// ---------------------------------------------------------------------------
// Shared page (parent <-> forked child), allocated once at init.
// ---------------------------------------------------------------------------

#[repr(C)]
pub struct Shared {
    /// calls of each kind made by the forked child (between fork and exec/_exit)
    pub child_calls: [AtomicU32; NKINDS],
    /// allocation probe
    pub child_allocs: AtomicU32,
    pub child_alloc_bytes: AtomicU64,
    pub child_first_alloc_size: AtomicU64,
    pub child_deallocs: AtomicU32,
    /// number of exec attempts that returned (failed) in the child
    pub child_exec_failed: AtomicU32,
    /// set by the child when a fault was injected there
    pub child_fault_hit: AtomicU32,
    /// nanosleep/clock_nanosleep calls made by a forked child before exec/_exit
    pub child_sleeps: AtomicU32,
    /// fds the child had open pointing at registered pipes at exec time (unused)
    pub spare: [AtomicU64; 8],
}

static SHARED: AtomicPtr<Shared> = AtomicPtr::new(std::ptr::null_mut());

pub fn shared() -> &'static Shared {
    let p = SHARED.load(Acquire);
    if !p.is_null() {
        return unsafe { &*p };
    }
    unsafe {
        let m = libc::mmap(
            std::ptr::null_mut(),
            4096,
            libc::PROT_READ | libc::PROT_WRITE,
            libc::MAP_SHARED | libc::MAP_ANONYMOUS,
            -1,
            0,
        );
        assert!(m != libc::MAP_FAILED);
        let m = m as *mut Shared;
        match SHARED.compare_exchange(std::ptr::null_mut(), m, AcqRel, Acquire) {
            Ok(_) => &*m,
            Err(other) => {
                libc::munmap(m as *mut c_void, 4096);
                &*other
            }
        }
    }
}

pub fn shared_reset() {
    let s = shared();
    for c in &s.child_calls {
        c.store(0, SeqCst);
    }
    s.child_allocs.store(0, SeqCst);
    s.child_alloc_bytes.store(0, SeqCst);
    s.child_first_alloc_size.store(0, SeqCst);
    s.child_deallocs.store(0, SeqCst);
    s.child_exec_failed.store(0, SeqCst);
    s.child_fault_hit.store(0, SeqCst);
    s.child_sleeps.store(0, SeqCst);
}

// ---------------------------------------------------------------------------
// Process-local switches
// ---------------------------------------------------------------------------

/// true in a child created by our `fork` until exec/_exit
pub static IN_CHILD: AtomicBool = AtomicBool::new(false);
/// allocation probe armed (only ever set in the forked child)
pub static ALLOC_ARMED: AtomicBool = AtomicBool::new(false);
/// arm the probe in children forked from now on
pub static ARM_PROBE_ON_FORK: AtomicBool = AtomicBool::new(false);

/// Fake fork: `fork()` returns FAKE_PID_NEXT++ without forking.
pub static FAKE_FORK: AtomicBool = AtomicBool::new(false);
pub static FAKE_PID_NEXT: AtomicI32 = AtomicI32::new(3_000_000);

// Fault plan -----------------------------------------------------------------
pub static FAULT_ARMED: AtomicBool = AtomicBool::new(false);
pub static FAULT_KIND: AtomicUsize = AtomicUsize::new(0);
pub static FAULT_K: AtomicU32 = AtomicU32::new(0); // 1-based ordinal
pub static FAULT_ERRNO: AtomicI32 = AtomicI32::new(0);
pub static FAULT_IN_CHILD: AtomicBool = AtomicBool::new(false);
/// restrict parent-side faults to this thread (0 = any)
pub static FAULT_TID: AtomicI32 = AtomicI32::new(0);
pub static FAULT_HIT: AtomicU32 = AtomicU32::new(0);
/// parent-side counters per kind (reset by `counters_reset`)
pub static PARENT_CALLS: [AtomicU32; NKINDS] = [const { AtomicU32::new(0) }; NKINDS];
/// counting enabled (so that harness-own calls outside an operation are not counted)
pub static COUNTING: AtomicBool = AtomicBool::new(false);

pub fn counters_reset() {
    for c in &PARENT_CALLS {
        c.store(0, SeqCst);
    }
    FAULT_HIT.store(0, SeqCst);
}

pub fn fault_arm(kind: usize, k: u32, errno: i32, in_child: bool) {
    FAULT_KIND.store(kind, SeqCst);
    FAULT_K.store(k, SeqCst);
    FAULT_ERRNO.store(errno, SeqCst);
    FAULT_IN_CHILD.store(in_child, SeqCst);
    FAULT_HIT.store(0, SeqCst);
    FAULT_ARMED.store(true, SeqCst);
}
pub fn fault_disarm() {
    FAULT_ARMED.store(false, SeqCst);
}

#[inline]
fn gettid() -> i32 {
    unsafe { libc::syscall(libc::SYS_gettid) as i32 }
}

/// Count a call of `kind`; returns Some(errno) if the fault plan says it fails.
#[inline]
fn account(kind: usize) -> Option<c_int> {
    if IN_CHILD.load(Relaxed) {
        let n = shared().child_calls[kind].fetch_add(1, SeqCst) + 1;
        if FAULT_ARMED.load(Relaxed)
            && FAULT_IN_CHILD.load(Relaxed)
            && FAULT_KIND.load(Relaxed) == kind
            && FAULT_K.load(Relaxed) == n
        {
            shared().child_fault_hit.fetch_add(1, SeqCst);
            return Some(FAULT_ERRNO.load(Relaxed));
        }
        return None;
    }
    if !COUNTING.load(Relaxed) {
        return None;
    }
    let ft = FAULT_TID.load(Relaxed);
    if ft != 0 && ft != gettid() {
        return None;
    }
    let n = PARENT_CALLS[kind].fetch_add(1, SeqCst) + 1;
    if FAULT_ARMED.load(Relaxed)
        && !FAULT_IN_CHILD.load(Relaxed)
        && FAULT_KIND.load(Relaxed) == kind
        && FAULT_K.load(Relaxed) == n
    {
        FAULT_HIT.fetch_add(1, SeqCst);
        return Some(FAULT_ERRNO.load(Relaxed));
    }
    None
}

// ---------------------------------------------------------------------------
// Log of process-related calls (parent side only)
// ---------------------------------------------------------------------------

#[derive(Clone, Copy, Debug, Default)]
pub struct LogRec {
    pub kind: u8,
    pub tid: i32,
    pub a: i64,
    pub b: i64,
    pub ret: i64,
    pub err: i32,
    pub t_ns: i64,
}

pub const LOG_CAP: usize = 1 << 16;
static mut LOG: [LogRec; LOG_CAP] = [LogRec { kind: 0, tid: 0, a: 0, b: 0, ret: 0, err: 0, t_ns: 0 }; LOG_CAP];
static LOG_LEN: AtomicUsize = AtomicUsize::new(0);
pub static LOG_ON: AtomicBool = AtomicBool::new(false);
pub static LOG_OVERFLOW: AtomicBool = AtomicBool::new(false);

#[inline]
fn log(kind: usize, a: i64, b: i64, ret: i64, err: i32) {
    if !LOG_ON.load(Relaxed) || IN_CHILD.load(Relaxed) {
        return;
    }
    let i = LOG_LEN.fetch_add(1, SeqCst);
    if i >= LOG_CAP {
        LOG_OVERFLOW.store(true, Relaxed);
        return;
    }
    let t = VCLOCK_NS.load(Relaxed);
    unsafe {
        let p = std::ptr::addr_of_mut!(LOG) as *mut LogRec;
        *p.add(i) = LogRec { kind: kind as u8, tid: 0, a, b, ret, err, t_ns: t };
    }
}

pub fn log_reset() {
    LOG_LEN.store(0, SeqCst);
    LOG_OVERFLOW.store(false, SeqCst);
}
pub fn log_snapshot() -> Vec<LogRec> {
    let n = LOG_LEN.load(SeqCst).min(LOG_CAP);
    let mut v = Vec::with_capacity(n);
    unsafe {
        let p = std::ptr::addr_of!(LOG) as *const LogRec;
        for i in 0..n {
            v.push(*p.add(i));
        }
    }
    v
}

// ---------------------------------------------------------------------------
// Pipe registry
// ---------------------------------------------------------------------------

#[derive(Clone, Copy, Debug, Default)]
pub struct PipeRec {
    pub rfd: i32,
    pub wfd: i32,
    pub ino: u64,
    pub tid: i32,
}
pub const PIPE_CAP: usize = 4096;
static mut PIPES: [PipeRec; PIPE_CAP] = [PipeRec { rfd: 0, wfd: 0, ino: 0, tid: 0 }; PIPE_CAP];
static PIPES_LEN: AtomicUsize = AtomicUsize::new(0);
pub static PIPE_REG_ON: AtomicBool = AtomicBool::new(false);

pub fn pipes_reset() {
    PIPES_LEN.store(0, SeqCst);
}
pub fn pipes_snapshot() -> Vec<PipeRec> {
    let n = PIPES_LEN.load(SeqCst).min(PIPE_CAP);
    let mut v = Vec::with_capacity(n);
    unsafe {
        let p = std::ptr::addr_of!(PIPES) as *const PipeRec;
        for i in 0..n {
            v.push(*p.add(i));
        }
    }
    v
}

// ---------------------------------------------------------------------------
// Simulator hooks
// ---------------------------------------------------------------------------

/// Virtual monotonic clock in ns; used when `SIM_CLOCK` is on.
pub static VCLOCK_NS: AtomicI64 = AtomicI64::new(0);
pub static SIM_CLOCK: AtomicBool = AtomicBool::new(false);

/// Routing table fd -> 1 + simulated object id (0 = not routed).
pub const FD_CAP: usize = 4096;
pub static FD_ROUTE: [AtomicU32; FD_CAP] = [const { AtomicU32::new(0) }; FD_CAP];

pub trait SimHooks {
    fn read(&mut self, obj: u32, buf: &mut [u8]) -> isize;
    fn write(&mut self, obj: u32, buf: &[u8]) -> isize;
    fn close(&mut self, obj: u32) -> c_int;
    /// entries: (obj or None when fd is negative / not routed, events) -> revents
    fn poll(&mut self, fds: &mut [pollfd], timeout_ms: c_int) -> c_int;
    fn clock_tick(&mut self) {}
    fn sleep(&mut self, _ns: i64) {}
    fn waitpid(&mut self, _pid: pid_t, _status: *mut c_int, _opts: c_int) -> pid_t {
        set_errno(libc::ECHILD);
        -1
    }
    fn kill(&mut self, _pid: pid_t, _sig: c_int) -> c_int {
        set_errno(libc::ESRCH);
        -1
    }
}

static mut SIM: Option<*mut dyn SimHooks> = None;
pub static SIM_ON: AtomicBool = AtomicBool::new(false);
/// all waitpid/kill go to the simulator (never to the kernel) while set
pub static SIM_PROC: AtomicBool = AtomicBool::new(false);

/// Install a simulator. The pointer must stay valid until `sim_uninstall`.
pub unsafe fn sim_install(s: *mut dyn SimHooks) {
    *std::ptr::addr_of_mut!(SIM) = Some(s);
    SIM_ON.store(true, SeqCst);
}
pub fn sim_uninstall() {
    SIM_ON.store(false, SeqCst);
    SIM_PROC.store(false, SeqCst);
    SIM_CLOCK.store(false, SeqCst);
    unsafe {
        *std::ptr::addr_of_mut!(SIM) = None;
    }
    for r in FD_ROUTE.iter() {
        r.store(0, Relaxed);
    }
}
#[inline]
unsafe fn sim() -> Option<&'static mut dyn SimHooks> {
    if !SIM_ON.load(Relaxed) {
        return None;
    }
    match *std::ptr::addr_of!(SIM) {
        Some(p) => Some(&mut *p),
        None => None,
    }
}
#[inline]
fn routed(fd: c_int) -> Option<u32> {
    if fd >= 0 && (fd as usize) < FD_CAP {
        let r = FD_ROUTE[fd as usize].load(Relaxed);
        if r != 0 {
            return Some(r - 1);
        }
    }
    None
}
pub fn route_fd(fd: c_int, obj: u32) {
    FD_ROUTE[fd as usize].store(obj + 1, SeqCst);
}
pub fn unroute_fd(fd: c_int) {
    if fd >= 0 && (fd as usize) < FD_CAP {
        FD_ROUTE[fd as usize].store(0, SeqCst);
    }
}

// ---------------------------------------------------------------------------
// Cooperative scheduler hook (C08 concurrent part)
// ---------------------------------------------------------------------------

/// If set, called at the top of every interposed call made in the parent
/// process by a participating thread. Must not allocate.
pub static YIELD_HOOK: AtomicUsize = AtomicUsize::new(0);
#[inline]
fn yield_point(kind: usize) {
    let h = YIELD_HOOK.load(Relaxed);
    if h != 0 && !IN_CHILD.load(Relaxed) {
        let f: fn(usize) = unsafe { std::mem::transmute(h) };
        f(kind);
    }
}

// ---------------------------------------------------------------------------
// CPU-spin guard support: every interposed call bumps CALLS; engines set
// IN_LIB while the code under test runs.  A virtual-time (CPU) timer in the
// worker turns "seconds of CPU inside the library without a single system
// call" into a reported case instead of a stuck worker (see runner.rs).
// ---------------------------------------------------------------------------
pub static CALLS: AtomicU64 = AtomicU64::new(0);
pub static IN_LIB: AtomicBool = AtomicBool::new(false);
#[inline]
fn bump() {
    CALLS.fetch_add(1, Relaxed);
}

// ---------------------------------------------------------------------------
// Raw passthroughs usable by the harness itself
// ---------------------------------------------------------------------------

pub unsafe fn raw_read(fd: c_int, buf: *mut c_void, n: size_t) -> ssize_t {
    libc::syscall(libc::SYS_read, fd, buf, n) as ssize_t
}
pub unsafe fn raw_write(fd: c_int, buf: *const c_void, n: size_t) -> ssize_t {
    libc::syscall(libc::SYS_write, fd, buf, n) as ssize_t
}
pub unsafe fn raw_close(fd: c_int) -> c_int {
    libc::syscall(libc::SYS_close, fd) as c_int
}
pub unsafe fn raw_waitpid(pid: pid_t, status: *mut c_int, opts: c_int) -> pid_t {
    libc::syscall(libc::SYS_wait4, pid, status, opts, 0usize) as pid_t
}
pub unsafe fn raw_kill(pid: pid_t, sig: c_int) -> c_int {
    libc::syscall(libc::SYS_kill, pid, sig) as c_int
}
pub unsafe fn raw_pipe2(fds: *mut c_int, flags: c_int) -> c_int {
    libc::syscall(libc::SYS_pipe2, fds, flags) as c_int
}
pub fn real_now_ns() -> i64 {
    unsafe {
        let mut ts: timespec = std::mem::zeroed();
        libc::syscall(libc::SYS_clock_gettime, libc::CLOCK_MONOTONIC, &mut ts as *mut timespec);
        ts.tv_sec as i64 * 1_000_000_000 + ts.tv_nsec as i64
    }
}
pub fn real_sleep_ms(ms: u64) {
    unsafe {
        let ts = timespec { tv_sec: (ms / 1000) as _, tv_nsec: ((ms % 1000) * 1_000_000) as _ };
        libc::syscall(libc::SYS_nanosleep, &ts as *const timespec, 0usize);
    }
}

extern "C" {
    fn __fork() -> pid_t;
}

// ---------------------------------------------------------------------------
// The interposed entry points
// ---------------------------------------------------------------------------

#[no_mangle]
pub unsafe extern "C" fn read(fd: c_int, buf: *mut c_void, n: size_t) -> ssize_t {
    bump();
    if let Some(obj) = routed(fd) {
        if let Some(s) = sim() {
            let sl = std::slice::from_raw_parts_mut(buf as *mut u8, n);
            return s.read(obj, sl) as ssize_t;
        }
    }
    yield_point(K_READ);
    // fault plan: the call is interrupted / fails before anything was read
    if !IN_CHILD.load(Relaxed) && COUNTING.load(Relaxed) {
        if let Some(e) = account(K_READ) {
            set_errno(e);
            return -1;
        }
    }
    ret_sys(libc::syscall(libc::SYS_read, fd, buf, n)) as ssize_t
}

#[no_mangle]
pub unsafe extern "C" fn write(fd: c_int, buf: *const c_void, n: size_t) -> ssize_t {
    bump();
    if let Some(obj) = routed(fd) {
        if let Some(s) = sim() {
            let sl = std::slice::from_raw_parts(buf as *const u8, n);
            return s.write(obj, sl) as ssize_t;
        }
    }
    ret_sys(libc::syscall(libc::SYS_write, fd, buf, n)) as ssize_t
}

#[no_mangle]
pub unsafe extern "C" fn close(fd: c_int) -> c_int {
    bump();
    if let Some(obj) = routed(fd) {
        if let Some(s) = sim() {
            unroute_fd(fd);
            let r = s.close(obj);
            // release the placeholder descriptor too
            libc::syscall(libc::SYS_close, fd);
            return r;
        }
    }
    yield_point(K_CLOSE);
    let r = libc::syscall(libc::SYS_close, fd) as c_int;
    if LOG_ON.load(Relaxed) {
        log(K_CLOSE, fd as i64, 0, r as i64, if r < 0 { get_errno() } else { 0 });
    }
    r
}

#[no_mangle]
pub unsafe extern "C" fn poll(fds: *mut pollfd, nfds: nfds_t, timeout: c_int) -> c_int {
    bump();
    if let Some(s) = sim() {
        let sl = std::slice::from_raw_parts_mut(fds, nfds as usize);
        if sl.iter().any(|p| routed(p.fd).is_some()) {
            return s.poll(sl, timeout);
        }
    }
    ret_sys(libc::syscall(libc::SYS_poll, fds, nfds, timeout)) as c_int
}

unsafe fn do_pipe(fds: *mut c_int, flags: c_int) -> c_int {
    bump();
    yield_point(K_PIPE);
    if let Some(e) = account(K_PIPE) {
        set_errno(e);
        log(K_PIPE, -1, -1, -1, e);
        return -1;
    }
    let r = libc::syscall(libc::SYS_pipe2, fds, flags) as c_int;
    if r == 0 {
        if PIPE_REG_ON.load(Relaxed) && !IN_CHILD.load(Relaxed) {
            let mut st: libc::stat = std::mem::zeroed();
            libc::fstat(*fds, &mut st);
            let i = PIPES_LEN.fetch_add(1, SeqCst);
            if i < PIPE_CAP {
                let p = std::ptr::addr_of_mut!(PIPES) as *mut PipeRec;
                *p.add(i) = PipeRec { rfd: *fds, wfd: *fds.add(1), ino: st.st_ino as u64, tid: gettid() };
            }
        }
        log(K_PIPE, *fds as i64, *fds.add(1) as i64, 0, 0);
    } else {
        log(K_PIPE, -1, -1, -1, get_errno());
    }
    r
}

#[no_mangle]
pub unsafe extern "C" fn pipe(fds: *mut c_int) -> c_int {
    do_pipe(fds, 0)
}

/// when set, pipe2() with flags answers ENOSYS (a kernel without it) while pipe() works
pub static PIPE2_ENOSYS: AtomicBool = AtomicBool::new(false);

#[no_mangle]
pub unsafe extern "C" fn pipe2(fds: *mut c_int, flags: c_int) -> c_int {
    if flags != 0 && PIPE2_ENOSYS.load(Relaxed) && !IN_CHILD.load(Relaxed) {
        set_errno(libc::ENOSYS);
        return -1;
    }
    do_pipe(fds, flags)
}

#[no_mangle]
pub unsafe extern "C" fn fcntl(fd: c_int, cmd: c_int, arg: c_long) -> c_int {
    // only F_GETFD/F_SETFD are of interest for faults; everything passes through
    let interesting = cmd == libc::F_GETFD || cmd == libc::F_SETFD || cmd == libc::F_DUPFD || cmd == libc::F_DUPFD_CLOEXEC;
    if interesting {
        yield_point(K_FCNTL);
        if let Some(e) = account(K_FCNTL) {
            set_errno(e);
            log(K_FCNTL, fd as i64, cmd as i64, -1, e);
            return -1;
        }
    }
    let r = libc::syscall(libc::SYS_fcntl, fd, cmd, arg) as c_int;
    if interesting {
        log(K_FCNTL, fd as i64, ((cmd as i64) << 32) | (arg as i64 & 0xffff_ffff), r as i64, if r < 0 { get_errno() } else { 0 });
    }
    r
}

#[no_mangle]
pub unsafe extern "C" fn fork() -> pid_t {
    bump();
    yield_point(K_FORK);
    if let Some(e) = account(K_FORK) {
        set_errno(e);
        log(K_FORK, 0, 0, -1, e);
        return -1;
    }
    if FAKE_FORK.load(Relaxed) {
        let pid = FAKE_PID_NEXT.fetch_add(1, SeqCst);
        log(K_FORK, 1, 0, pid as i64, 0);
        return pid;
    }
    let arm = ARM_PROBE_ON_FORK.load(Relaxed);
    let pid = __fork();
    if pid == 0 {
        IN_CHILD.store(true, SeqCst);
        if arm {
            ALLOC_ARMED.store(true, SeqCst);
        }
        return 0;
    }
    log(K_FORK, 0, 0, pid as i64, if pid < 0 { get_errno() } else { 0 });
    pid
}

#[no_mangle]
pub unsafe extern "C" fn dup2(old: c_int, new: c_int) -> c_int {
    if let Some(e) = account(K_DUP2) {
        set_errno(e);
        return -1;
    }
    // dup2 via dup3 semantics: SYS_dup2 exists on x86_64
    libc::syscall(libc::SYS_dup2, old, new) as c_int
}

#[no_mangle]
pub unsafe extern "C" fn chdir(path: *const c_char) -> c_int {
    if let Some(e) = account(K_CHDIR) {
        set_errno(e);
        return -1;
    }
    libc::syscall(libc::SYS_chdir, path) as c_int
}

#[no_mangle]
pub unsafe extern "C" fn setuid(uid: libc::uid_t) -> c_int {
    if let Some(e) = account(K_SETUID) {
        set_errno(e);
        return -1;
    }
    // Raw syscall affects only the calling thread; that is exactly what is
    // wanted: only ever used for real in a single-threaded forked child.
    if !IN_CHILD.load(Relaxed) {
        set_errno(libc::EPERM);
        return -1;
    }
    libc::syscall(libc::SYS_setuid, uid) as c_int
}

#[no_mangle]
pub unsafe extern "C" fn setgid(gid: libc::gid_t) -> c_int {
    if let Some(e) = account(K_SETGID) {
        set_errno(e);
        return -1;
    }
    if !IN_CHILD.load(Relaxed) {
        set_errno(libc::EPERM);
        return -1;
    }
    libc::syscall(libc::SYS_setgid, gid) as c_int
}

#[no_mangle]
pub unsafe extern "C" fn setpgid(pid: pid_t, pgid: pid_t) -> c_int {
    if let Some(e) = account(K_SETPGID) {
        set_errno(e);
        return -1;
    }
    libc::syscall(libc::SYS_setpgid, pid, pgid) as c_int
}

extern "C" {
    static environ: *const *const c_char;
}

#[no_mangle]
pub unsafe extern "C" fn execve(path: *const c_char, argv: *const *const c_char, envp: *const *const c_char) -> c_int {
    if let Some(e) = account(K_EXEC) {
        set_errno(e);
        if IN_CHILD.load(Relaxed) {
            shared().child_exec_failed.fetch_add(1, SeqCst);
        }
        return -1;
    }
    // The probe must not count what the new image does; exec replaces the
    // image anyway.  On failure we come back, still armed.
    let r = libc::syscall(libc::SYS_execve, path, argv, envp) as c_int;
    if IN_CHILD.load(Relaxed) {
        shared().child_exec_failed.fetch_add(1, SeqCst);
    }
    r
}

#[no_mangle]
pub unsafe extern "C" fn execv(path: *const c_char, argv: *const *const c_char) -> c_int {
    execve(path, argv, environ)
}

#[no_mangle]
pub unsafe extern "C" fn waitpid(pid: pid_t, status: *mut c_int, opts: c_int) -> pid_t {
    bump();
    yield_point(K_WAITPID);
    if SIM_PROC.load(Relaxed) {
        if let Some(s) = sim() {
            let r = s.waitpid(pid, status, opts);
            return r;
        }
    }
    if COUNTING.load(Relaxed) && !IN_CHILD.load(Relaxed) {
        PARENT_CALLS[K_WAITPID].fetch_add(1, SeqCst);
    }
    let r = libc::syscall(libc::SYS_wait4, pid, status, opts, 0usize) as pid_t;
    log(K_WAITPID, pid as i64, opts as i64, r as i64, if r < 0 { get_errno() } else { 0 });
    r
}

#[no_mangle]
pub unsafe extern "C" fn kill(pid: pid_t, sig: c_int) -> c_int {
    bump();
    if SIM_PROC.load(Relaxed) {
        if let Some(s) = sim() {
            return s.kill(pid, sig);
        }
    }
    let r = libc::syscall(libc::SYS_kill, pid, sig) as c_int;
    log(K_KILL, pid as i64, sig as i64, r as i64, if r < 0 { get_errno() } else { 0 });
    r
}

#[no_mangle]
pub unsafe extern "C" fn killpg(pgrp: pid_t, sig: c_int) -> c_int {
    if pgrp < 0 {
        set_errno(libc::EINVAL);
        return -1;
    }
    // glibc: killpg(pgrp, sig) == kill(-pgrp, sig); route it through our kill
    kill(-pgrp, sig)
}

#[no_mangle]
pub unsafe extern "C" fn clock_gettime(clk: libc::clockid_t, ts: *mut timespec) -> c_int {
    bump();
    if clk == libc::CLOCK_MONOTONIC && SIM_CLOCK.load(Relaxed) {
        if let Some(s) = sim() {
            s.clock_tick();
        }
        let t = VCLOCK_NS.load(Relaxed);
        (*ts).tv_sec = (t / 1_000_000_000) as _;
        (*ts).tv_nsec = (t % 1_000_000_000) as _;
        return 0;
    }
    libc::syscall(libc::SYS_clock_gettime, clk, ts) as c_int
}

#[no_mangle]
pub unsafe extern "C" fn nanosleep(req: *const timespec, rem: *mut timespec) -> c_int {
    bump();
    if IN_CHILD.load(Relaxed) {
        shared().child_sleeps.fetch_add(1, SeqCst);
    }
    if SIM_CLOCK.load(Relaxed) {
        if let Some(s) = sim() {
            let ns = (*req).tv_sec as i64 * 1_000_000_000 + (*req).tv_nsec as i64;
            s.sleep(ns);
            return 0;
        }
    }
    libc::syscall(libc::SYS_nanosleep, req, rem) as c_int
}

#[no_mangle]
pub unsafe extern "C" fn clock_nanosleep(clk: libc::clockid_t, flags: c_int, req: *const timespec, rem: *mut timespec) -> c_int {
    bump();
    if IN_CHILD.load(Relaxed) {
        shared().child_sleeps.fetch_add(1, SeqCst);
    }
    if SIM_CLOCK.load(Relaxed) {
        if let Some(s) = sim() {
            let mut ns = (*req).tv_sec as i64 * 1_000_000_000 + (*req).tv_nsec as i64;
            if flags & libc::TIMER_ABSTIME != 0 {
                ns -= VCLOCK_NS.load(Relaxed);
                if ns < 0 {
                    ns = 0;
                }
            }
            s.sleep(ns);
            return 0;
        }
    }
    // clock_nanosleep returns the error number, not -1/errno
    let r = libc::syscall(libc::SYS_clock_nanosleep, clk, flags, req, rem);
    if r < 0 {
        get_errno()
    } else {
        0
    }
}

/// Make sure the object file holding the definitions above is linked.
#[inline(never)]
pub fn init() {
    let _ = shared();
    std::hint::black_box(read as usize);
}
