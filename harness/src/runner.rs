//! Runner: worker processes, proptest glue, statistics, evidence, replays,
//! known findings.
use proptest::strategy::{Strategy, ValueTree};
use proptest::test_runner::{Config, RngAlgorithm, RngSeed, TestCaseError, TestError, TestRunner};
use serde::{Deserialize, Serialize};
use serde_json::{json, Value};
use std::cell::RefCell;
use std::collections::{BTreeMap, HashSet};
use std::fmt::Debug;
use std::io::Write;
use std::path::{Path, PathBuf};

#[derive(Clone, Copy, Debug, PartialEq, Eq)]
pub enum Tier {
    Quick,
    Thorough,
}
impl Tier {
    pub fn name(self) -> &'static str {
        match self {
            Tier::Quick => "quick",
            Tier::Thorough => "thorough",
        }
    }
    pub fn pick<T>(self, q: T, t: T) -> T {
        match self {
            Tier::Quick => q,
            Tier::Thorough => t,
        }
    }
}

#[derive(Clone, Debug, Serialize, Deserialize)]
pub struct Failure {
    pub signature: String,
    pub detail: String,
    pub engine: String,
    pub case: Value,
}

/// What one executed case tells the runner.
#[derive(Default)]
pub struct CaseReport {
    /// class key if the case is non-trivial by the property's rule
    pub class: Option<String>,
    /// extra counters (name -> increment)
    pub counters: Vec<(String, u64)>,
}
impl CaseReport {
    pub fn nontrivial(&mut self, class: impl Into<String>) {
        self.class = Some(class.into());
    }
    pub fn count(&mut self, name: &str, n: u64) {
        self.counters.push((name.to_string(), n));
    }
}

#[derive(Debug)]
pub struct Fail {
    pub signature: String,
    pub detail: String,
}
impl Fail {
    pub fn new(sig: impl Into<String>, detail: impl Into<String>) -> Fail {
        Fail { signature: sig.into(), detail: detail.into() }
    }
}
pub type CaseResult = Result<(), Fail>;

#[derive(Default, Serialize, Deserialize)]
pub struct Stats {
    pub evaluations: u64,
    pub nontrivial: u64,
    pub classes: BTreeMap<String, u64>,
    pub counters: BTreeMap<String, u64>,
    pub samples: Vec<Value>,
    pub failures: Vec<Failure>,
    pub known_hits: BTreeMap<String, u64>,
    pub engines: BTreeMap<String, u64>,
    pub inconclusive: Vec<String>,
    #[serde(skip)]
    pub hashes: HashSet<u64>,
}

#[derive(Clone, Debug, Serialize, Deserialize)]
pub struct KnownFinding {
    pub property: String,
    pub signature: String,
    pub status: String, // "known" | "fixed"
    #[serde(default)]
    pub commit: Option<String>,
    pub what: String,
}

pub fn verif_root() -> PathBuf {
    if let Ok(p) = std::env::var("VERIF_ROOT") {
        return PathBuf::from(p);
    }
    PathBuf::from("/verif")
}

pub fn load_known() -> Vec<KnownFinding> {
    let p = verif_root().join("known_findings.json");
    match std::fs::read_to_string(&p) {
        Ok(s) => serde_json::from_str(&s).unwrap_or_else(|e| {
            eprintln!("cannot parse {}: {}", p.display(), e);
            std::process::exit(2)
        }),
        Err(_) => vec![],
    }
}

pub struct Ctx {
    pub prop: String,
    pub tier: Tier,
    pub seed: u64,
    pub worker: usize,
    pub nworkers: usize,
    pub scratch: PathBuf,
    pub stats: RefCell<Stats>,
    pub known: Vec<KnownFinding>,
    pub max_samples: usize,
    /// where the worker's (partial) result file goes; None outside a worker
    pub result_path: Option<PathBuf>,
}

pub fn fnv(data: &[u8]) -> u64 {
    let mut h: u64 = 0xcbf29ce484222325;
    for b in data {
        h ^= *b as u64;
        h = h.wrapping_mul(0x100000001b3);
    }
    h
}
pub fn mix(a: u64, b: u64) -> u64 {
    let mut x = a ^ b.wrapping_mul(0x9E3779B97F4A7C15);
    x ^= x >> 30;
    x = x.wrapping_mul(0xBF58476D1CE4E5B9);
    x ^= x >> 27;
    x = x.wrapping_mul(0x94D049BB133111EB);
    x ^= x >> 31;
    x
}

impl Ctx {
    pub fn new(prop: &str, tier: Tier, seed: u64, worker: usize, nworkers: usize, scratch: PathBuf) -> Ctx {
        Ctx {
            prop: prop.to_string(),
            tier,
            seed,
            worker,
            nworkers,
            scratch,
            stats: RefCell::new(Stats::default()),
            known: load_known(),
            max_samples: 6,
            result_path: None,
        }
    }
    pub fn sub_seed(&self, name: &str) -> u64 {
        mix(mix(mix(self.seed, fnv(self.prop.as_bytes())), self.worker as u64 + 1), fnv(name.as_bytes()))
    }
    pub fn is_known(&self, sig: &str) -> bool {
        self.known.iter().any(|k| k.property == self.prop && k.status == "known" && k.signature == sig)
    }
    pub fn inconclusive(&self, msg: impl Into<String>) {
        self.stats.borrow_mut().inconclusive.push(msg.into());
    }

    /// Record one executed case (used by explore and by enumerations).
    pub fn record<T: Serialize>(&self, engine: &str, case: &T, rep: &CaseReport, res: &CaseResult) -> bool {
        let mut st = self.stats.borrow_mut();
        st.evaluations += 1;
        *st.engines.entry(engine.to_string()).or_insert(0) += 1;
        for (k, n) in &rep.counters {
            *st.counters.entry(k.clone()).or_insert(0) += n;
        }
        if let Some(c) = &rep.class {
            st.nontrivial += 1;
            let first = !st.classes.contains_key(c);
            *st.classes.entry(c.clone()).or_insert(0) += 1;
            let js = serde_json::to_vec(case).unwrap_or_default();
            st.hashes.insert(fnv(&js));
            if first && st.samples.len() < self.max_samples {
                let v = serde_json::to_value(case).unwrap_or(Value::Null);
                st.samples.push(json!({"engine": engine, "class": c, "case": truncate_json(v)}));
            }
        }
        match res {
            Ok(()) => true,
            Err(f) => {
                if self.is_known(&f.signature) {
                    *st.known_hits.entry(f.signature.clone()).or_insert(0) += 1;
                    true
                } else {
                    false
                }
            }
        }
    }

    pub fn add_failure(&self, engine: &str, case: Value, f: &Fail) {
        {
            let mut st = self.stats.borrow_mut();
            if st.failures.iter().any(|x| x.signature == f.signature) {
                return;
            }
            st.failures.push(Failure {
                signature: f.signature.clone(),
                detail: f.detail.clone(),
                engine: engine.to_string(),
                case,
            });
        }
        // a failure must survive whatever happens to this worker afterwards
        self.checkpoint();
    }

    pub fn has_failure(&self) -> bool {
        !self.stats.borrow().failures.is_empty()
    }

    /// Write the statistics gathered so far to the worker's result file.
    pub fn checkpoint(&self) {
        if let Some(p) = &self.result_path {
            let st = self.stats.borrow();
            if let Ok(js) = serde_json::to_vec(&*st) {
                let tmp = p.with_extension("json.tmp");
                if std::fs::write(&tmp, js).is_ok() {
                    let _ = std::fs::rename(&tmp, p);
                }
            }
        }
    }

    /// Enumerated / hand-driven case: run, record, and register failure (no shrinking).
    pub fn run_case<T: Serialize>(&self, engine: &str, case: &T, f: impl FnOnce(&mut CaseReport) -> CaseResult) -> bool {
        let mut rep = CaseReport::default();
        let res = f(&mut rep);
        let ok = self.record(engine, case, &rep, &res);
        if !ok {
            if let Err(fl) = &res {
                self.add_failure(engine, serde_json::to_value(case).unwrap_or(Value::Null), fl);
            }
        }
        ok
    }

    /// Random exploration with proptest: `cases` cases from `strat`, each run
    /// through `f`. On the first unknown failure proptest shrinks the case; the
    /// shrunk value is re-run once to obtain its signature and recorded.
    pub fn explore<S, F>(&self, engine: &str, name: &str, strat: S, cases: u32, max_shrink: u32, f: F)
    where
        S: Strategy,
        S::Value: Serialize + Debug + Clone,
        F: Fn(&S::Value, &mut CaseReport) -> CaseResult,
    {
        if self.has_failure() {
            // an earlier stage of this worker already found a violation: report
            // that one rather than risk it in a later stage
            return;
        }
        let seed = self.sub_seed(name);
        let mut seed_bytes = [0u8; 32];
        for i in 0..4 {
            seed_bytes[i * 8..i * 8 + 8].copy_from_slice(&mix(seed, i as u64).to_le_bytes());
        }
        let cfg = Config {
            cases,
            max_shrink_iters: max_shrink,
            failure_persistence: None,
            rng_algorithm: RngAlgorithm::ChaCha,
            rng_seed: RngSeed::Fixed(seed),
            max_global_rejects: 65536,
            max_local_rejects: 65536,
            ..Config::default()
        };
        let _ = seed_bytes;
        let mut runner = TestRunner::new(cfg);
        let frozen = std::cell::Cell::new(false);
        // the most recent failing (case, failure) seen: proptest returns exactly
        // that case as the shrunk one, so no re-run is needed (a re-run of a
        // real-process case need not fail again)
        let last_fail: RefCell<Option<(Value, Fail)>> = RefCell::new(None);
        let result = runner.run(&strat, |v| {
            let mut rep = CaseReport::default();
            let cur = serde_json::to_vec(&v).unwrap_or_default();
            spin_guard_case(Some(&cur));
            let res = f(&v, &mut rep);
            spin_guard_case(None);
            if frozen.get() {
                // shrinking phase: do not count
                return match res {
                    Ok(()) => Ok(()),
                    Err(fl) => {
                        if self.is_known(&fl.signature) {
                            Ok(())
                        } else {
                            let sig = fl.signature.clone();
                            *last_fail.borrow_mut() = Some((serde_json::to_value(&v).unwrap_or(Value::Null), fl));
                            Err(TestCaseError::fail(sig))
                        }
                    }
                };
            }
            let ok = self.record(engine, &v, &rep, &res);
            if ok {
                Ok(())
            } else {
                frozen.set(true);
                let fl = res.err().unwrap_or_else(|| Fail::new("?", ""));
                let sig = fl.signature.clone();
                *last_fail.borrow_mut() = Some((serde_json::to_value(&v).unwrap_or(Value::Null), fl));
                Err(TestCaseError::fail(sig))
            }
        });
        match result {
            Ok(()) => {}
            Err(TestError::Fail(reason, _v)) => {
                match last_fail.borrow_mut().take() {
                    Some((case, fl)) => self.add_failure(engine, case, &fl),
                    // the case body itself panicked (proptest turns that into a failure):
                    // that is a defect of the harness, never a verdict, and never silent
                    None => self.inconclusive(format!("case body panicked in {}: {}", name, reason)),
                }
            }
            Err(TestError::Abort(r)) => {
                self.inconclusive(format!("proptest aborted in {}: {}", name, r));
            }
        }
    }

    /// Generate one value from a strategy deterministically (for enumerations
    /// that need random decorations).
    pub fn sample<S: Strategy>(&self, name: &str, strat: &S, n: usize) -> Vec<S::Value> {
        let seed = self.sub_seed(name);
        let cfg = Config { failure_persistence: None, rng_algorithm: RngAlgorithm::ChaCha, rng_seed: RngSeed::Fixed(seed), ..Config::default() };
        let mut runner = TestRunner::new(cfg);
        (0..n).map(|_| strat.new_tree(&mut runner).unwrap().current()).collect()
    }
}

pub fn truncate_json(v: Value) -> Value {
    match v {
        Value::String(s) if s.len() > 200 => Value::String(format!("{}...({} bytes)", &s[..s.char_indices().nth(120).map(|x| x.0).unwrap_or(s.len())], s.len())),
        Value::Array(a) => {
            let n = a.len();
            if n > 40 {
                let mut out: Vec<Value> = a.into_iter().take(30).map(truncate_json).collect();
                out.push(Value::String(format!("...({} items)", n)));
                Value::Array(out)
            } else {
                Value::Array(a.into_iter().map(truncate_json).collect())
            }
        }
        Value::Object(m) => Value::Object(m.into_iter().map(|(k, v)| (k, truncate_json(v))).collect()),
        x => x,
    }
}

// ---------------------------------------------------------------------------
// Property table
// ---------------------------------------------------------------------------

pub struct PropDef {
    pub id: &'static str,
    pub level: &'static str,
    pub rule: &'static str,
    pub assumptions: &'static [&'static str],
    pub engines: &'static str,
    /// number of worker processes for a tier
    pub workers: fn(Tier) -> usize,
    pub worker: fn(&Ctx),
    /// replay a stored case; returns failures found
    pub replay: fn(&Ctx, &str, &Value) -> CaseResult,
    pub exhaustive: bool,
}

// ---------------------------------------------------------------------------
// CPU-spin guard
// ---------------------------------------------------------------------------

use std::sync::atomic::{AtomicI32, AtomicU64, AtomicUsize, Ordering::SeqCst};
static SPIN_FD: AtomicI32 = AtomicI32::new(-1);
static CUR_CASE_PTR: AtomicUsize = AtomicUsize::new(0);
static CUR_CASE_LEN: AtomicUsize = AtomicUsize::new(0);
static LAST_CALLS: AtomicU64 = AtomicU64::new(0);
static STALL: AtomicU64 = AtomicU64::new(0);
pub const SPIN_TICKS: u64 = 8;

extern "C" fn on_vtalrm(_sig: i32) {
    use crate::interpose as ip;
    if !ip::IN_LIB.load(SeqCst) {
        STALL.store(0, SeqCst);
        return;
    }
    let c = ip::CALLS.load(SeqCst);
    if c != LAST_CALLS.swap(c, SeqCst) {
        STALL.store(0, SeqCst);
        return;
    }
    if STALL.fetch_add(1, SeqCst) + 1 < SPIN_TICKS {
        return;
    }
    // SPIN_TICKS seconds of CPU inside the code under test without one system
    // call: write the current case and stop this worker (async-signal-safe)
    let fd = SPIN_FD.load(SeqCst);
    let p = CUR_CASE_PTR.load(SeqCst);
    let n = CUR_CASE_LEN.load(SeqCst);
    unsafe {
        if fd >= 0 && p != 0 {
            ip::raw_write(fd, p as *const libc::c_void, n);
        }
        libc::_exit(96);
    }
}

pub fn spin_guard_install(scratch: &Path, idx: usize) {
    let path = std::ffi::CString::new(scratch.join(format!("w{}.spin.json", idx)).to_str().unwrap()).unwrap();
    unsafe {
        let fd = libc::open(path.as_ptr(), libc::O_WRONLY | libc::O_CREAT | libc::O_TRUNC | libc::O_CLOEXEC, 0o644);
        SPIN_FD.store(fd, SeqCst);
        let mut sa: libc::sigaction = std::mem::zeroed();
        sa.sa_sigaction = on_vtalrm as usize;
        sa.sa_flags = libc::SA_RESTART;
        libc::sigaction(libc::SIGVTALRM, &sa, std::ptr::null_mut());
        let it = libc::itimerval { it_interval: libc::timeval { tv_sec: 1, tv_usec: 0 }, it_value: libc::timeval { tv_sec: 1, tv_usec: 0 } };
        libc::setitimer(libc::ITIMER_VIRTUAL, &it, std::ptr::null_mut());
    }
}

/// Publish the case about to be executed (kept alive by the caller).
pub fn spin_guard_case(s: Option<&[u8]>) {
    match s {
        Some(b) => {
            CUR_CASE_PTR.store(b.as_ptr() as usize, SeqCst);
            CUR_CASE_LEN.store(b.len(), SeqCst);
        }
        None => {
            CUR_CASE_PTR.store(0, SeqCst);
            CUR_CASE_LEN.store(0, SeqCst);
        }
    }
}

// ---------------------------------------------------------------------------
// Worker side
// ---------------------------------------------------------------------------

pub fn worker_main(def: &PropDef, tier: Tier, seed: u64, idx: usize, n: usize, scratch: &Path) -> i32 {
    let wscratch = scratch.join(format!("w{}", idx));
    std::fs::create_dir_all(&wscratch).ok();
    let mut ctx = Ctx::new(def.id, tier, seed, idx, n, wscratch.clone());
    ctx.result_path = Some(scratch.join(format!("w{}.json", idx)));
    spin_guard_install(scratch, idx);
    (def.worker)(&ctx);
    let st = ctx.stats.into_inner();
    let mut hb: Vec<u8> = Vec::with_capacity(st.hashes.len() * 8);
    for h in &st.hashes {
        hb.extend_from_slice(&h.to_le_bytes());
    }
    std::fs::write(scratch.join(format!("w{}.hashes", idx)), hb).ok();
    let js = serde_json::to_vec(&st).unwrap();
    let tmp = scratch.join(format!("w{}.json.tmp", idx));
    std::fs::write(&tmp, js).unwrap();
    std::fs::rename(&tmp, scratch.join(format!("w{}.json", idx))).unwrap();
    std::fs::remove_dir_all(&wscratch).ok();
    0
}

// ---------------------------------------------------------------------------
// Parent side
// ---------------------------------------------------------------------------

fn now_s() -> f64 {
    crate::interpose::real_now_ns() as f64 / 1e9
}

pub fn check_main(def: &PropDef, tier: Tier, seed: u64) -> i32 {
    let t0 = now_s();
    let root = verif_root();
    let tmp = std::env::var("TMPDIR").unwrap_or_else(|_| "/tmp".into());
    let scratch = PathBuf::from(tmp).join(format!("verif-{}-{}", def.id, std::process::id()));
    let _ = std::fs::remove_dir_all(&scratch);
    std::fs::create_dir_all(&scratch).unwrap();
    let n = (def.workers)(tier).max(1);
    let exe = std::env::current_exe().unwrap();
    let limit_s: f64 = std::env::var("VERIF_WATCHDOG_S").ok().and_then(|s| s.parse().ok()).unwrap_or(tier.pick(1500.0, 6.0 * 3600.0));

    let mut kids: Vec<(usize, libc::pid_t)> = vec![];
    for i in 0..n {
        let args: Vec<std::ffi::CString> = vec![
            exe.to_str().unwrap().to_string(),
            "worker".into(),
            def.id.into(),
            tier.name().into(),
            seed.to_string(),
            i.to_string(),
            n.to_string(),
            scratch.to_str().unwrap().to_string(),
        ]
        .into_iter()
        .map(|s| std::ffi::CString::new(s).unwrap())
        .collect();
        let mut ptrs: Vec<*const libc::c_char> = args.iter().map(|a| a.as_ptr()).collect();
        ptrs.push(std::ptr::null());
        let log = std::ffi::CString::new(scratch.join(format!("w{}.log", i)).to_str().unwrap()).unwrap();
        let pid = unsafe { libc::fork() };
        if pid == 0 {
            unsafe {
                libc::setpgid(0, 0);
                // die with the parent (the forking thread is the parent's main thread)
                libc::prctl(libc::PR_SET_PDEATHSIG, libc::SIGKILL);
                let fd = libc::open(log.as_ptr(), libc::O_WRONLY | libc::O_CREAT | libc::O_TRUNC, 0o644);
                if fd >= 0 {
                    libc::dup2(fd, 1);
                    libc::dup2(fd, 2);
                }
                let dn = libc::open(b"/dev/null\0".as_ptr() as *const libc::c_char, libc::O_RDONLY);
                if dn >= 0 {
                    libc::dup2(dn, 0);
                }
                libc::execv(ptrs[0], ptrs.as_ptr());
                libc::_exit(126);
            }
        }
        kids.push((i, pid));
    }
    // wait with watchdog
    let mut statuses: BTreeMap<usize, i32> = BTreeMap::new();
    let mut timed_out = false;
    while statuses.len() < kids.len() {
        let mut progressed = false;
        for (i, pid) in &kids {
            if statuses.contains_key(i) {
                continue;
            }
            let mut st = 0;
            let r = unsafe { crate::interpose::raw_waitpid(*pid, &mut st, libc::WNOHANG) };
            if r == *pid {
                statuses.insert(*i, st);
                progressed = true;
            } else if r < 0 {
                statuses.insert(*i, -1);
                progressed = true;
            }
        }
        if !progressed {
            if now_s() - t0 > limit_s {
                timed_out = true;
                for (i, pid) in &kids {
                    if !statuses.contains_key(i) {
                        unsafe {
                            crate::interpose::raw_kill(-*pid, libc::SIGKILL);
                            crate::interpose::raw_kill(*pid, libc::SIGKILL);
                        }
                    }
                }
            }
            crate::interpose::real_sleep_ms(20);
        }
    }

    // aggregate
    let mut agg = Stats::default();
    let mut problems: Vec<String> = vec![];
    if timed_out {
        problems.push(format!("watchdog: workers exceeded {} s", limit_s));
    }
    for (i, _) in &kids {
        let st = statuses[i];
        let p = scratch.join(format!("w{}.json", i));
        match std::fs::read(&p).ok().and_then(|b| serde_json::from_slice::<Stats>(&b).ok()) {
            Some(s) => {
                agg.evaluations += s.evaluations;
                agg.nontrivial += s.nontrivial;
                for (k, v) in s.classes {
                    *agg.classes.entry(k).or_insert(0) += v;
                }
                for (k, v) in s.counters {
                    *agg.counters.entry(k).or_insert(0) += v;
                }
                for (k, v) in s.engines {
                    *agg.engines.entry(k).or_insert(0) += v;
                }
                for (k, v) in s.known_hits {
                    *agg.known_hits.entry(k).or_insert(0) += v;
                }
                for v in s.samples {
                    if agg.samples.len() < 12 {
                        agg.samples.push(v);
                    }
                }
                for f in s.failures {
                    if !agg.failures.iter().any(|x| x.signature == f.signature) {
                        agg.failures.push(f);
                    }
                }
                agg.inconclusive.extend(s.inconclusive);
                if let Ok(hb) = std::fs::read(scratch.join(format!("w{}.hashes", i))) {
                    for c in hb.chunks_exact(8) {
                        agg.hashes.insert(u64::from_le_bytes(c.try_into().unwrap()));
                    }
                }
            }
            None => {
                // stopped by the CPU-spin guard? then the case it was running is on disk
                if (st >> 8) & 0xff == 96 {
                    if let Ok(b) = std::fs::read(scratch.join(format!("w{}.spin.json", i))) {
                        if let Ok(case) = serde_json::from_slice::<Value>(&b) {
                            if def.id == "C02" || def.id == "C10" {
                                // termination is not what these two properties state
                                problems.push(format!("worker {}: code under test spins on the CPU without system calls (see C01/C09 for the property); case {}", i, truncate_json(case)));
                                continue;
                            }
                            let sig = format!("{}:cpu-spin", def.id);
                            if !agg.failures.iter().any(|x| x.signature == sig) {
                                agg.failures.push(Failure {
                                    signature: sig,
                                    detail: format!("the code under test consumed {} s of CPU without making a single system call while running this case (not shrunk)", SPIN_TICKS),
                                    engine: def.engines.split('+').next().unwrap_or("").to_string(),
                                    case,
                                });
                            }
                            continue;
                        }
                    }
                }
                let log = std::fs::read_to_string(scratch.join(format!("w{}.log", i))).unwrap_or_default();
                let tail: String = log.lines().rev().take(15).collect::<Vec<_>>().into_iter().rev().collect::<Vec<_>>().join("\n");
                problems.push(format!("worker {} produced no result (wait status {:#x}); log tail:\n{}", i, st, tail));
            }
        }
        if std::env::var("VERIF_VERBOSE").is_ok() {
            if let Ok(log) = std::fs::read_to_string(scratch.join(format!("w{}.log", i))) {
                if !log.is_empty() {
                    eprintln!("--- worker {} log ---\n{}", i, log);
                }
            }
        }
    }
    problems.extend(agg.inconclusive.iter().cloned());

    let known = load_known();
    let mut exit = 0;
    let mut violations = 0;
    // failures: unknown ones are violations
    for f in &agg.failures {
        let dir = root.join("replays").join(def.id);
        std::fs::create_dir_all(&dir).ok();
        let path = dir.join(format!("{:016x}.json", fnv(f.signature.as_bytes())));
        let body = json!({"property": def.id, "signature": f.signature, "engine": f.engine, "detail": f.detail, "seed": seed, "tier": tier.name(), "case": f.case});
        std::fs::write(&path, serde_json::to_vec_pretty(&body).unwrap()).ok();
        println!("VIOLATION property={} replay={}", def.id, path.display());
        println!("  signature: {}", f.signature);
        for l in f.detail.lines().take(40) {
            println!("  {}", l);
        }
        violations += 1;
        exit = 1;
    }
    for k in known.iter().filter(|k| k.property == def.id && k.status == "known") {
        let hits = agg.known_hits.get(&k.signature).copied().unwrap_or(0);
        if hits > 0 {
            println!("KNOWN-FINDING: property={} {} ({}; observed {} times in this run)", def.id, k.signature, k.what, hits);
        }
    }

    let distinct = agg.hashes.len() as u64;
    let wall = now_s() - t0;
    let mut classes_top: Vec<(&String, &u64)> = agg.classes.iter().collect();
    classes_top.sort_by(|a, b| b.1.cmp(a.1));
    let hist: serde_json::Map<String, Value> = classes_top.iter().take(60).map(|(k, v)| ((*k).clone(), json!(**v))).collect();
    let evidence = json!({
        "property_id": def.id,
        "tier": tier.name(),
        "seed": seed,
        "level": def.level,
        "coverage": {
            "evaluations": agg.evaluations,
            "distinct_nontrivial": distinct,
            "nontrivial_evaluations": agg.nontrivial,
            "distinct_classes": agg.classes.len(),
            "rule": def.rule,
            "samples": agg.samples,
            "class_histogram_top": hist,
            "counters": agg.counters,
            "engines": agg.engines,
            "workers": n,
            "known_finding_hits": agg.known_hits,
            "exhaustive": def.exhaustive,
            "inconclusive": problems,
        },
        "assumptions": def.assumptions,
        "wall_s": (wall * 1000.0).round() / 1000.0,
        "violations": violations,
    });
    let evdir = root.join("evidence");
    std::fs::create_dir_all(&evdir).ok();
    std::fs::write(evdir.join(format!("{}.json", def.id)), serde_json::to_vec_pretty(&evidence).unwrap()).unwrap();
    let _ = std::fs::remove_dir_all(&scratch);

    if !problems.is_empty() && exit == 0 {
        for p in &problems {
            eprintln!("INCONCLUSIVE property={} {}", def.id, p);
        }
        exit = 2;
    }
    println!(
        "property={} tier={} seed={} evaluations={} nontrivial={} distinct_nontrivial={} classes={} violations={} wall_s={:.1} exit={}",
        def.id, tier.name(), seed, agg.evaluations, agg.nontrivial, distinct, agg.classes.len(), violations, wall, exit
    );
    std::io::stdout().flush().ok();
    exit
}

pub fn replay_main(def: &PropDef, path: &str) -> i32 {
    let body: Value = match std::fs::read(path).ok().and_then(|b| serde_json::from_slice(&b).ok()) {
        Some(v) => v,
        None => {
            eprintln!("cannot read replay file {}", path);
            return 2;
        }
    };
    let tmp = std::env::var("TMPDIR").unwrap_or_else(|_| "/tmp".into());
    let scratch = PathBuf::from(tmp).join(format!("verif-replay-{}", std::process::id()));
    std::fs::create_dir_all(&scratch).ok();
    let ctx = Ctx::new(def.id, Tier::Quick, 0, 0, 1, scratch.clone());
    let engine = body.get("engine").and_then(|e| e.as_str()).unwrap_or("").to_string();
    let case = body.get("case").cloned().unwrap_or(Value::Null);
    std::env::set_var("VERIF_TRACE", "1");
    let r = (def.replay)(&ctx, &engine, &case);
    let _ = std::fs::remove_dir_all(&scratch);
    match r {
        Ok(()) => {
            println!("replay: property={} case passes on this tree", def.id);
            0
        }
        Err(f) => {
            println!("VIOLATION property={} replay={}", def.id, path);
            println!("  signature: {}", f.signature);
            println!("{}", f.detail);
            1
        }
    }
}
