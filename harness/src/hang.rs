//! Wait-for-graph deadlock oracle (C12, C14): run a library call on its own
//! thread; if it does not return, decide by structure, not by elapsed time:
//! the calling thread sits in wait4(P), P is blocked in read/write on a pipe,
//! and every holder of the other end of that pipe is this process itself or a
//! process that is in turn blocked in the same way.  Such a cycle cannot resolve
//! without outside intervention.
use crate::interpose as ip;
use std::collections::BTreeSet;
use std::sync::mpsc;

pub enum HangOutcome<T> {
    Returned(T),
    /// structural deadlock; the description names the cycle. The children were
    /// killed to get the thread back; its eventual result is attached if it came.
    Deadlock(String, Option<T>),
    Inconclusive(String),
}

fn read_syscall(path: &str) -> Option<(i64, Vec<u64>)> {
    let s = std::fs::read_to_string(path).ok()?;
    let mut it = s.split_whitespace();
    let nr = it.next()?.parse::<i64>().ok()?;
    let args: Vec<u64> = it.take(6).filter_map(|a| u64::from_str_radix(a.trim_start_matches("0x"), 16).ok()).collect();
    Some((nr, args))
}

fn pipe_inode(pid: i32, fd: u64) -> Option<u64> {
    let t = std::fs::read_link(format!("/proc/{}/fd/{}", pid, fd)).ok()?;
    let t = t.to_string_lossy().into_owned();
    t.strip_prefix("pipe:[")?.strip_suffix(']')?.parse().ok()
}

pub fn my_children() -> Vec<i32> {
    let me = std::process::id();
    let mut pids = vec![];
    if let Ok(rd) = std::fs::read_dir(format!("/proc/{}/task", me)) {
        for e in rd.flatten() {
            if let Ok(s) = std::fs::read_to_string(e.path().join("children")) {
                pids.extend(s.split_whitespace().filter_map(|x| x.parse::<i32>().ok()));
            }
        }
    }
    pids.sort();
    pids.dedup();
    pids
}

/// holders of the read (want_write=false) or write (want_write=true) end of a pipe
fn holders(inode: u64, want_write: bool, pids: &[i32]) -> Vec<(i32, i32)> {
    let mut v = vec![];
    for &p in pids {
        if let Ok(rd) = std::fs::read_dir(format!("/proc/{}/fd", p)) {
            for e in rd.flatten() {
                let t = std::fs::read_link(e.path()).map(|t| t.to_string_lossy().into_owned()).unwrap_or_default();
                if t == format!("pipe:[{}]", inode) {
                    let fd: i32 = e.file_name().to_string_lossy().parse().unwrap_or(-1);
                    let info = std::fs::read_to_string(format!("/proc/{}/fdinfo/{}", p, fd)).unwrap_or_default();
                    let flags = info.lines().find_map(|l| l.strip_prefix("flags:").map(|v| i64::from_str_radix(v.trim(), 8).unwrap_or(0))).unwrap_or(0);
                    let acc = flags & 3;
                    let is_write = acc == 1 || acc == 2;
                    let is_read = acc == 0 || acc == 2;
                    if (want_write && is_write) || (!want_write && is_read) {
                        v.push((p, fd));
                    }
                }
            }
        }
    }
    v
}

/// Is process `pid` blocked for good? (in read/write on a pipe whose other
/// end is held only by `me` or by processes blocked for good)
fn blocked_for_good(pid: i32, me: i32, all: &[i32], visiting: &mut BTreeSet<i32>, trace: &mut Vec<String>) -> bool {
    if !visiting.insert(pid) {
        return true; // cycle back into the set under examination
    }
    let (nr, args) = match read_syscall(&format!("/proc/{}/syscall", pid)) {
        Some(x) => x,
        None => return false,
    };
    let (is_read, fd) = match nr {
        0 => (true, args.first().copied().unwrap_or(0)),
        1 => (false, args.first().copied().unwrap_or(0)),
        _ => {
            trace.push(format!("pid {} is in syscall {} (not pipe I/O)", pid, nr));
            return false;
        }
    };
    let ino = match pipe_inode(pid, fd) {
        Some(i) => i,
        None => {
            trace.push(format!("pid {} blocked on fd {} which is not a pipe", pid, fd));
            return false;
        }
    };
    let hs = holders(ino, is_read, all);
    trace.push(format!(
        "pid {} blocked in {}(fd {}) on pipe:[{}]; other end held by {:?}",
        pid,
        if is_read { "read" } else { "write" },
        fd,
        ino,
        hs.iter().map(|(p, f)| if *p == me { format!("harness fd {}", f) } else { format!("pid {} fd {}", p, f) }).collect::<Vec<_>>()
    ));
    if hs.is_empty() {
        // nobody holds the other end: read gets EOF / write gets EPIPE momentarily
        return false;
    }
    for (p, _) in hs {
        if p == me {
            continue;
        }
        if !blocked_for_good(p, me, all, visiting, trace) {
            return false;
        }
    }
    true
}

/// Inspect thread `tid` of this process. Some(description) = structural deadlock.
pub fn inspect(tid: i32) -> Result<Option<String>, String> {
    let me = std::process::id() as i32;
    let path = format!("/proc/{}/task/{}/syscall", me, tid);
    let before = std::fs::read_to_string(&path).map_err(|e| format!("cannot read {}: {}", path, e))?;
    let (nr, args) = match read_syscall(&path) {
        Some(x) => x,
        None => return Ok(None), // "running"
    };
    if nr == libc::SYS_poll || nr == libc::SYS_read || nr == libc::SYS_write {
        // The thread waits on pipes itself (a communicate-style exchange).  It is
        // stuck for good if it waits without timeout and, for every pipe it
        // waits on, all holders of the other end are blocked for good.
        let mut waits: Vec<(u64, bool)> = vec![]; // (fd, thread waits to read)
        if nr == libc::SYS_poll {
            let timeout = args.get(2).copied().unwrap_or(0) as i32;
            if timeout >= 0 {
                return Ok(None);
            }
            let ptr = args.first().copied().unwrap_or(0) as *const libc::pollfd;
            let n = args.get(1).copied().unwrap_or(0) as usize;
            if ptr.is_null() || n > 16 {
                return Ok(None);
            }
            for i in 0..n {
                // same address space: the blocked thread's pollfd array is readable
                let pf = unsafe { std::ptr::read_volatile(ptr.add(i)) };
                if pf.fd >= 0 {
                    waits.push((pf.fd as u64, pf.events & libc::POLLIN != 0));
                }
            }
        } else {
            waits.push((args.first().copied().unwrap_or(0), nr == libc::SYS_read));
        }
        if waits.is_empty() {
            return Ok(None);
        }
        // Can the thread's own wait complete right now?  This process can ask
        // the kernel directly: a zero-timeout poll on the same descriptors.
        // (The thread's syscall line alone cannot tell a stuck poll from a
        // loop of polls that each return at once.)
        let mut probe: Vec<libc::pollfd> = waits.iter().map(|(fd, r)| libc::pollfd { fd: *fd as i32, events: if *r { libc::POLLIN } else { libc::POLLOUT }, revents: 0 }).collect();
        let ready = unsafe { libc::syscall(libc::SYS_poll, probe.as_mut_ptr(), probe.len(), 0) };
        if ready != 0 {
            return Ok(None);
        }
        let mut all = my_children();
        all.push(me);
        let mut trace = vec![format!("harness thread {} is blocked in {} without timeout", tid, if nr == libc::SYS_poll { "poll" } else if nr == libc::SYS_read { "read" } else { "write" })];
        for (fd, wants_read) in waits {
            let ino = match pipe_inode(me, fd) {
                Some(i) => i,
                None => return Ok(None),
            };
            let hs = holders(ino, wants_read, &all);
            let others: Vec<i32> = hs.iter().map(|h| h.0).filter(|p| *p != me).collect();
            trace.push(format!("waits on fd {} (pipe:[{}], to {}); other end held by pids {:?}", fd, ino, if wants_read { "read" } else { "write" }, others));
            if others.is_empty() {
                // nobody else holds the other end: EOF / EPIPE is imminent, not a deadlock
                return Ok(None);
            }
            for p in others {
                let mut visiting = BTreeSet::new();
                if !blocked_for_good(p, me, &all, &mut visiting, &mut trace) {
                    return Ok(None);
                }
            }
        }
        // still nothing ready and the thread still in the same call?
        let ready = unsafe { libc::syscall(libc::SYS_poll, probe.as_mut_ptr(), probe.len(), 0) };
        let after = std::fs::read_to_string(&path).unwrap_or_default();
        return Ok(if before == after && ready == 0 { Some(trace.join("; ")) } else { None });
    }
    if nr != libc::SYS_wait4 {
        return Ok(None);
    }

    let awaited = args.first().copied().unwrap_or(0) as i32;
    if awaited <= 0 {
        return Ok(None);
    }
    let mut all = my_children();
    all.push(me);
    let mut visiting = BTreeSet::new();
    let mut trace = vec![format!("harness thread {} is in wait4({})", tid, awaited)];
    let blocked = blocked_for_good(awaited, me, &all, &mut visiting, &mut trace);
    let after = std::fs::read_to_string(&path).unwrap_or_default();
    if blocked && before == after {
        Ok(Some(trace.join("; ")))
    } else {
        Ok(None)
    }
}

pub fn kill_children() {
    for p in my_children() {
        unsafe {
            ip::raw_kill(p, libc::SIGKILL);
        }
    }
}

/// Run `f` on a fresh thread under the oracle.
pub fn run<T: Send + 'static>(f: impl FnOnce() -> T + Send + 'static, hard_limit_ms: u64) -> HangOutcome<T> {
    let (tx, rx) = mpsc::channel::<T>();
    let (ttx, trx) = mpsc::channel::<i32>();
    let h = std::thread::Builder::new()
        .name("lib-call".into())
        .spawn(move || {
            let tid = unsafe { libc::syscall(libc::SYS_gettid) as i32 };
            let _ = ttx.send(tid);
            let r = f();
            let _ = tx.send(r);
        })
        .expect("spawn");
    let tid = match trx.recv() {
        Ok(t) => t,
        Err(_) => return HangOutcome::Inconclusive("worker thread died before starting".into()),
    };
    let t0 = ip::real_now_ns();
    let mut waited_ms = 0u64;
    loop {
        match rx.recv_timeout(std::time::Duration::from_millis(if waited_ms < 200 { 20 } else { 100 })) {
            Ok(v) => {
                let _ = h.join();
                return HangOutcome::Returned(v);
            }
            Err(mpsc::RecvTimeoutError::Disconnected) => {
                let _ = h.join();
                return HangOutcome::Inconclusive("library call panicked on its thread".into());
            }
            Err(mpsc::RecvTimeoutError::Timeout) => {}
        }
        waited_ms = ((ip::real_now_ns() - t0) / 1_000_000) as u64;
        if waited_ms >= 150 {
            match inspect(tid).and_then(|first| match first {
                // a wait-for cycle persists: it must still be there a moment later
                Some(_) => {
                    ip::real_sleep_ms(100);
                    inspect(tid)
                }
                None => Ok(None),
            }) {
                Ok(Some(desc)) => {
                    kill_children();
                    let late = rx.recv_timeout(std::time::Duration::from_secs(20)).ok();
                    if late.is_some() {
                        let _ = h.join();
                    }
                    return HangOutcome::Deadlock(desc, late);
                }
                Ok(None) => {}
                Err(e) => {
                    kill_children();
                    let _ = rx.recv_timeout(std::time::Duration::from_secs(5));
                    return HangOutcome::Inconclusive(e);
                }
            }
        }
        if waited_ms > hard_limit_ms {
            kill_children();
            let late = rx.recv_timeout(std::time::Duration::from_secs(10)).is_ok();
            if late {
                let _ = h.join();
            }
            return HangOutcome::Inconclusive(format!("library call did not return within {} ms and no wait-for cycle was found (returned after killing children: {})", hard_limit_ms, late));
        }
    }
}

/// Run `f` on the *calling* thread (for values that are not Send) while a
/// monitor thread applies the same structural oracle to it.  If the calling
/// thread is found in a wait-for cycle the children are killed (so that `f`
/// returns) and the description of the cycle is returned with the result.
pub fn guard<T>(f: impl FnOnce() -> T) -> (T, Option<String>) {
    use std::sync::atomic::{AtomicBool, Ordering::SeqCst};
    use std::sync::{Arc, Mutex};
    let tid = unsafe { libc::syscall(libc::SYS_gettid) as i32 };
    let stop = Arc::new(AtomicBool::new(false));
    let found: Arc<Mutex<Option<String>>> = Arc::new(Mutex::new(None));
    let (s2, f2) = (stop.clone(), found.clone());
    let mon = std::thread::spawn(move || {
        let t0 = ip::real_now_ns();
        while !s2.load(SeqCst) {
            // woken at once (unpark) when the guarded call is over
            std::thread::park_timeout(std::time::Duration::from_millis(20));
            if s2.load(SeqCst) {
                return;
            }
            if (ip::real_now_ns() - t0) / 1_000_000 < 150 {
                continue;
            }
            if let Ok(Some(_)) = inspect(tid) {
                // a wait-for cycle persists: it must still be there a moment later
                ip::real_sleep_ms(100);
                let desc = match inspect(tid) {
                    Ok(Some(d)) => d,
                    _ => continue,
                };
                if s2.load(SeqCst) {
                    return;
                }
                *f2.lock().unwrap() = Some(desc);
                // keep killing until the guarded call is over (it may start more children)
                while !s2.load(SeqCst) {
                    kill_children();
                    ip::real_sleep_ms(10);
                }
                return;
            }
            ip::real_sleep_ms(80);
        }
    });
    let r = f();
    stop.store(true, SeqCst);
    mon.thread().unpark();
    let _ = mon.join();
    let d = found.lock().unwrap().take();
    (r, d)
}
