//! helpers
