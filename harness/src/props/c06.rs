//! C06: the child gets exactly the requested argv, program, environment, cwd
//! and identity.
use crate::interpose as ip;
use crate::props::c0104::quiet_panics;
use crate::real::*;
use crate::runner::*;
use proptest::prelude::*;
use serde::{Deserialize, Serialize};
use serde_json::Value;
use std::ffi::{OsStr, OsString};
use std::os::unix::ffi::{OsStrExt, OsStringExt};
use std::sync::atomic::Ordering::SeqCst;
use subprocess::{Popen, PopenConfig, PopenError};

type Bytes = Vec<u8>;

#[derive(Clone, Debug, Serialize, Deserialize)]
pub enum NulAt {
    Arg(usize, usize),
    EnvName(usize, usize),
    EnvValue(usize, usize),
    Argv0(usize),
}

#[derive(Clone, Debug, Serialize, Deserialize)]
pub struct SpawnCase {
    /// arguments after argv[0]
    pub args: Vec<Bytes>,
    /// Some: run through `executable`, with this (arbitrary) argv[0]
    pub argv0_override: Option<Bytes>,
    pub env: Option<Vec<(Bytes, Bytes)>>,
    pub cwd: Option<u8>,
    pub setuid: Option<u32>,
    pub setgid: Option<u32>,
    pub setpgid: bool,
    pub nul: Option<NulAt>,
}

fn last_wins(env: &[(Bytes, Bytes)]) -> Vec<Bytes> {
    let mut out: Vec<(Bytes, Bytes)> = vec![];
    for (k, v) in env {
        if let Some(e) = out.iter_mut().find(|(k2, _)| k2 == k) {
            // later value wins; position of the survivor is not observable (sorted compare)
            e.1 = v.clone();
        } else {
            out.push((k.clone(), v.clone()));
        }
    }
    let mut v: Vec<Bytes> = out
        .into_iter()
        .map(|(k, v)| {
            let mut e = k;
            e.push(b'=');
            e.extend_from_slice(&v);
            e
        })
        .collect();
    v.sort();
    v
}

extern "C" {
    static mut environ: *mut *mut libc::c_char;
}

/// The parent's environment as the kernel hands it on: the raw `environ` array,
/// entry by entry (std::env::vars_os() would skip what it cannot parse).
fn parent_environ() -> Vec<Bytes> {
    let mut v: Vec<Bytes> = vec![];
    unsafe {
        let mut p = environ;
        while !p.is_null() && !(*p).is_null() {
            v.push(std::ffi::CStr::from_ptr(*p).to_bytes().to_vec());
            p = p.add(1);
        }
    }
    v.sort();
    v
}

/// Entries that are legitimate in a process environment but awkward for anything
/// that re-parses it: an empty name, no '=' at all, the same name twice, '=' in a value.
fn add_odd_parent_entries() {
    let odd: [&[u8]; 5] = [b"=verif_anon", b"VERIF_NOEQ", b"VERIF_DUP=1=x", b"VERIF_DUP=2", b"VERIF_EQ=a=b=c"];
    unsafe {
        let mut all: Vec<*mut libc::c_char> = vec![];
        let mut p = environ;
        while !p.is_null() && !(*p).is_null() {
            let e = std::ffi::CStr::from_ptr(*p).to_bytes();
            if !odd.iter().any(|o| *o == e) {
                all.push(*p);
            }
            p = p.add(1);
        }
        for o in odd {
            all.push(std::ffi::CString::new(o).unwrap().into_raw());
        }
        all.push(std::ptr::null_mut());
        environ = Box::leak(all.into_boxed_slice()).as_mut_ptr();
    }
}

pub fn check_case(ctx: &Ctx, case: &SpawnCase, rep: &mut CaseReport) -> CaseResult {
    let sc = Scratch::new(&ctx.scratch, "c06");
    let bindir = sc.subdir("bin");
    let link = link_vchild(&bindir, OsStr::new("prog"));
    let other = link_vchild(&bindir, OsStr::new("other-name"));
    let prefix = sc.path("rep");
    set_mode(&bindir, "report", &[&prefix.to_string_lossy(), "0", ""]);
    // wd1 can be entered by root only: the directory change has to happen
    // before the identity change
    let dirs = [sc.subdir("wd0"), sc.subdir("wd1")];
    chmod(&dirs[1], 0o700);
    reap_all();
    let fail = |sig: &str, msg: String| Err(Fail::new(format!("C06:{}", sig), msg));

    // build argv / config
    let mut argv0: Bytes = match &case.argv0_override {
        Some(a) => a.clone(),
        None => link.as_os_str().as_bytes().to_vec(),
    };
    let mut args = case.args.clone();
    let mut env = case.env.clone();
    if let Some(n) = &case.nul {
        let ins = |b: &mut Bytes, pos: usize| {
            let p = if b.is_empty() { 0 } else { pos % (b.len() + 1) };
            b.insert(p, 0);
        };
        match n {
            NulAt::Arg(i, p) => {
                if args.is_empty() {
                    args.push(vec![]);
                }
                let i = i % args.len();
                ins(&mut args[i], *p);
            }
            NulAt::Argv0(p) => ins(&mut argv0, *p),
            NulAt::EnvName(i, p) => {
                let e = env.get_or_insert_with(Vec::new);
                if e.is_empty() {
                    e.push((b"N".to_vec(), b"v".to_vec()));
                }
                // only entries that survive de-duplication reach the child: take the last occurrence of the key
                let i = i % e.len();
                let key = e[i].0.clone();
                let i = e.iter().rposition(|(k, _)| *k == key).unwrap();
                ins(&mut e[i].0, *p);
            }
            NulAt::EnvValue(i, p) => {
                let e = env.get_or_insert_with(Vec::new);
                if e.is_empty() {
                    e.push((b"N".to_vec(), b"v".to_vec()));
                }
                let i = i % e.len();
                let key = e[i].0.clone();
                let i = e.iter().rposition(|(k, _)| *k == key).unwrap();
                ins(&mut e[i].1, *p);
            }
        }
    }
    let mut full: Vec<OsString> = vec![OsString::from_vec(argv0.clone())];
    full.extend(args.iter().map(|a| OsString::from_vec(a.clone())));
    let cfg = PopenConfig {
        executable: case.argv0_override.as_ref().map(|_| other.clone().into_os_string()),
        env: env.as_ref().map(|e| e.iter().map(|(k, v)| (OsString::from_vec(k.clone()), OsString::from_vec(v.clone()))).collect()),
        cwd: case.cwd.map(|d| dirs[d as usize % 2].clone().into_os_string()),
        setuid: case.setuid,
        setgid: case.setgid,
        setpgid: case.setpgid,
        ..Default::default()
    };

    // classification
    let big = args.iter().any(|a| a.len() > 4096);
    let odd = args.iter().any(|a| a.is_empty() || std::str::from_utf8(a).is_err());
    let dup = env.as_ref().map(|e| e.iter().enumerate().any(|(i, (k, _))| e[..i].iter().any(|(k2, _)| k2 == k))).unwrap_or(false);
    let ident = case.setuid.is_some() || case.setgid.is_some() || case.setpgid;
    if big || odd || dup || ident || case.nul.is_some() || case.argv0_override.is_some() {
        let opt = format!("{}{}{}{}{}", if case.setuid.is_some() { "u" } else { "" }, if case.setgid.is_some() { "g" } else { "" }, if case.setpgid { "p" } else { "" }, if case.cwd.is_some() { "c" } else { "" }, if case.argv0_override.is_some() { "x" } else { "" });
        rep.nontrivial(format!(
            "argv:{}{}{}|env:{}|opt:{}|nul:{}",
            if args.len() > 100 { "many" } else if args.is_empty() { "none" } else { "few" },
            if big { "+big" } else { "" },
            if odd { "+odd" } else { "" },
            match &env { None => "inherit".to_string(), Some(e) => format!("{}{}", if e.is_empty() { "empty" } else if e.len() > 50 { "many" } else { "few" }, if dup { "+dup" } else { "" }) },
            opt,
            match &case.nul { None => "-", Some(NulAt::Arg(..)) => "arg", Some(NulAt::Argv0(..)) => "argv0", Some(NulAt::EnvName(..)) => "name", Some(NulAt::EnvValue(..)) => "value" }
        ));
    }

    ip::counters_reset();
    ip::COUNTING.store(true, SeqCst);
    let res = Popen::create(&full, cfg);
    ip::COUNTING.store(false, SeqCst);
    let forks = ip::PARENT_CALLS[ip::K_FORK].load(SeqCst);

    if case.nul.is_some() {
        return match res {
            Err(_) => {
                if forks != 0 {
                    reap_all();
                    return fail("nul-rejected-after-fork", format!("NUL in {:?}: error returned but {} fork calls were made", case.nul, forks));
                }
                Ok(())
            }
            Ok(mut p) => {
                let _ = p.wait();
                fail("nul-accepted", format!("NUL in {:?} was accepted and a process started", case.nul))
            }
        };
    }
    let mut p = match res {
        Ok(p) => p,
        Err(e) => {
            reap_all();
            let os = match &e {
                PopenError::IoError(io) => io.raw_os_error(),
                _ => None,
            };
            let sig = if case.setuid.is_some() && case.setgid.is_some() && os == Some(libc::EPERM) { "setuid-and-setgid-refused".to_string() } else { format!("spawn-error:{:?}", os) };
            return fail(&sig, format!("Popen::create failed: {} (setuid {:?}, setgid {:?}, {} args, env {:?} entries)", e, case.setuid, case.setgid, args.len(), env.as_ref().map(|e| e.len())));
        }
    };
    let pid = p.pid().unwrap_or(0);
    let st = p.wait();
    let r = match read_report(&prefix, pid, 10_000) {
        Some(r) => r,
        None => return fail("no-report", format!("child {} left no report (exit {:?})", pid, st)),
    };
    // argv
    let want: Vec<Bytes> = std::iter::once(argv0.clone()).chain(args.iter().cloned()).collect();
    let got = r.argv_bytes();
    if got != want {
        let d = got.iter().zip(&want).position(|(a, b)| a != b).unwrap_or(got.len().min(want.len()));
        let kind = if got.len() != want.len() { "argc" } else if d == 0 { "argv0" } else { "arg-bytes" };
        return fail(&format!("argv:{}", kind), format!("child saw {} arguments, requested {}; first difference at index {}: got {:?} want {:?}", got.len(), want.len(), d, got.get(d).map(|b| String::from_utf8_lossy(&b[..b.len().min(80)]).into_owned()), want.get(d).map(|b| String::from_utf8_lossy(&b[..b.len().min(80)]).into_owned())));
    }
    // program
    let want_exe = if case.argv0_override.is_some() { &other } else { &link };
    if &r.exe_path() != want_exe {
        return fail("program", format!("child runs {:?}, requested {:?}", r.exe_path(), want_exe));
    }
    // environment
    let mut got_env = r.env_bytes();
    got_env.sort();
    let want_env = match &env {
        None => parent_environ(),
        Some(e) => last_wins(e),
    };
    if got_env != want_env {
        let missing: Vec<String> = want_env.iter().filter(|e| !got_env.contains(e)).take(4).map(|e| String::from_utf8_lossy(&e[..e.len().min(60)]).into_owned()).collect();
        let extra: Vec<String> = got_env.iter().filter(|e| !want_env.contains(e)).take(4).map(|e| String::from_utf8_lossy(&e[..e.len().min(60)]).into_owned()).collect();
        let kind = if dup { "duplicates" } else if env.is_none() { "inherit" } else { "listed" };
        return fail(&format!("env:{}", kind), format!("environment differs ({} entries, expected {}): missing {:?} unexpected {:?}", got_env.len(), want_env.len(), missing, extra));
    }
    // cwd
    let want_dir = match case.cwd {
        Some(d) => dirs[d as usize % 2].clone(),
        None => std::env::current_dir().unwrap(),
    };
    let c = std::ffi::CString::new(want_dir.as_os_str().as_bytes()).unwrap();
    let mut stt: libc::stat = unsafe { std::mem::zeroed() };
    unsafe { libc::stat(c.as_ptr(), &mut stt) };
    let by_ident = (r.cwd_dev, r.cwd_ino) == (stt.st_dev as u64, stt.st_ino as u64);
    // a child that changed identity may not be allowed to stat "." any more; getcwd() still works
    let by_path = r.cwd_dev == 0 && std::fs::canonicalize(&want_dir).map(|p| p.as_os_str().as_bytes() == &unhex(&r.cwd)[..]).unwrap_or(false);
    if !by_ident && !by_path {
        return fail("cwd", format!("child cwd {:?}, requested {:?}", String::from_utf8_lossy(&unhex(&r.cwd)), want_dir));
    }
    // identity
    let my_uid = unsafe { libc::getuid() };
    let my_gid = unsafe { libc::getgid() };
    let wu = case.setuid.unwrap_or(my_uid);
    let wg = case.setgid.unwrap_or(my_gid);
    if r.uid != wu || r.euid != wu {
        return fail("uid", format!("child uid/euid {}/{}, requested {}", r.uid, r.euid, wu));
    }
    if r.gid != wg || r.egid != wg {
        return fail("gid", format!("child gid/egid {}/{}, requested {}", r.gid, r.egid, wg));
    }
    if case.setpgid != (r.pgid == r.pid) {
        // the harness worker is a group leader itself, children inherit its group
        return fail("pgid", format!("child pid {} pgid {}, setpgid={}", r.pid, r.pgid, case.setpgid));
    }
    Ok(())
}

fn arg_strategy() -> impl Strategy<Value = Bytes> {
    prop_oneof![
        2 => Just(vec![]),
        8 => prop::collection::vec(prop_oneof![5 => 0x20u8..0x7f, 2 => 1u8..=255u8], 0..40),
        1 => Just(b" ".to_vec()),
        1 => Just(b"\"'\\ $`".to_vec()),
        1 => (4000usize..100_000, 1u8..=255).prop_map(|(n, b)| vec![b; n]),
    ]
}

fn env_strategy() -> impl Strategy<Value = Option<Vec<(Bytes, Bytes)>>> {
    let key = prop_oneof![
        6 => prop::sample::select(vec![b"A".to_vec(), b"B".to_vec(), b"C".to_vec(), b"PATH".to_vec(), b"a".to_vec(), b"K\xff".to_vec(), b"A B".to_vec()]),
        1 => prop::collection::vec(prop_oneof![b'A'..=b'Z', Just(b'_'), 0x80u8..=0xff], 1..8),
    ];
    let val = prop_oneof![3 => prop::collection::vec(1u8..=255u8, 0..20), 1 => Just(b"a=b=c".to_vec()), 1 => Just(vec![]), 1 => (1000usize..30000).prop_map(|n| vec![b'v'; n])];
    prop_oneof![
        2 => Just(None),
        1 => Just(Some(vec![])),
        6 => prop::collection::vec((key.clone(), val.clone()), 1..12).prop_map(Some),
        1 => prop::collection::vec((key, val), 100..300).prop_map(Some),
    ]
}

pub fn case_strategy() -> impl Strategy<Value = SpawnCase> {
    let args = prop_oneof![
        8 => prop::collection::vec(arg_strategy(), 0..12),
        1 => prop::collection::vec(arg_strategy(), 100..300),
    ];
    let id = prop_oneof![2 => Just(0u32), 1 => Just(1u32), 2 => 1u32..65534, 1 => Just(65534u32)];
    let nul = prop_oneof![
        10 => Just(None),
        1 => (any::<usize>(), any::<usize>()).prop_map(|(i, p)| Some(NulAt::Arg(i, p))),
        1 => (any::<usize>(), any::<usize>()).prop_map(|(i, p)| Some(NulAt::EnvName(i, p))),
        1 => (any::<usize>(), any::<usize>()).prop_map(|(i, p)| Some(NulAt::EnvValue(i, p))),
        1 => any::<usize>().prop_map(|p| Some(NulAt::Argv0(p))),
    ];
    (
        args,
        prop_oneof![2 => Just(None), 1 => arg_strategy().prop_map(|mut a| { a.truncate(200); Some(a) })],
        env_strategy(),
        prop_oneof![1 => Just(None), 1 => (0u8..2).prop_map(Some)],
        prop_oneof![3 => Just(None), 1 => id.clone().prop_map(Some)],
        prop_oneof![3 => Just(None), 1 => id.prop_map(Some)],
        any::<bool>(),
        nul,
    )
        .prop_map(|(mut args, argv0_override, env, cwd, setuid, setgid, setpgid, nul)| {
            // keep the total size below ARG_MAX so that E2BIG is never the answer
            let mut total = 0usize;
            args.retain(|a| {
                total += a.len() + 9;
                total < 900_000
            });
            let env = env.map(|mut e| {
                let mut t = 0usize;
                e.retain(|(k, v)| {
                    t += k.len() + v.len() + 10;
                    t < 400_000
                });
                e
            });
            SpawnCase { args, argv0_override, env, cwd, setuid, setgid, setpgid, nul }
        })
}

fn worker(ctx: &Ctx) {
    quiet_panics();
    add_odd_parent_entries();
    let n = ctx.tier.pick(500, 5000);
    ctx.explore("real", "c06", case_strategy(), n, 200, |c, rep| check_case(ctx, c, rep));
}

fn replay(ctx: &Ctx, _engine: &str, case: &Value) -> CaseResult {
    quiet_panics();
    add_odd_parent_entries();
    let c: SpawnCase = serde_json::from_value(case.clone()).map_err(|e| Fail::new("bad-replay-file", e.to_string()))?;
    let mut rep = CaseReport::default();
    check_case(ctx, &c, &mut rep)
}

pub static C06: PropDef = PropDef {
    id: "C06",
    level: "exploration",
    rule: "proptest generates argument vectors of 0..300 entries over arbitrary non-NUL bytes (empty, blanks, quotes, invalid UTF-8, up to 100 KB each, total below ARG_MAX), an optional `executable` override with an arbitrary argv[0], env = inherit or a list of 0..300 pairs with names from a small alphabet (duplicates in every position) and arbitrary values, cwd, setuid/setgid in {0, 1..65534} (the sandbox runs as root, so identities really change), setpgid; separately one NUL injected into a random argument, argv[0], name or value. Oracle: the helper child's self-report equals the request byte for byte (argv vector, /proc/self/exe, raw environ sorted vs. last-wins model or the parent's raw environ array (to which the worker adds an entry with an empty name, one without '=', a name that occurs twice and a value containing '='), cwd by dev/ino, real and effective uid/gid, pgid == pid iff setpgid); with a NUL: Err and zero fork calls. Non-trivial = an argument is empty, non-UTF-8 or > 4096 bytes, or a duplicate name, or an identity option, or an executable override, or a NUL.",
    assumptions: &["the helper reports through a side file selected by a sidecar next to its hard link (argv and environment are under test)", "running as root"],
    engines: "real",
    workers: |_| 16,
    worker,
    replay,
    exhaustive: false,
};
