//! C12: handles clean up after themselves: no zombies, no self-inflicted
//! drop hang, detached drop neither blocks nor reaps.
use crate::hang::{self, HangOutcome};
use crate::interpose as ip;
use crate::props::c0104::quiet_panics;
use crate::real::*;
use crate::runner::*;
use proptest::prelude::*;
use serde::{Deserialize, Serialize};
use serde_json::Value;
use std::io::{Read, Write};
use std::sync::atomic::Ordering::SeqCst;
use subprocess::{Exec, NullFile, Pipeline, Popen, PopenConfig, Redirection};

#[derive(Clone, Copy, Debug, PartialEq, Serialize, Deserialize)]
pub enum Handle {
    PopenPlain,
    PopenDetachedCfg,
    PopenDetachCall,
    ExecJoin,
    ExecCapture,
    StreamStdout,
    StreamStderr,
    StreamStdin,
    PipeJoin,
    PipeCapture,
    PipeStreamStdout,
    PipeStreamStdin,
    /// stream adapters over a command that was also given another piped stream: that
    /// pipe's parent end lives inside the adapter, out of the caller's reach
    StreamStdoutWithStdinPipe,
    StreamStdoutWithStderrPipe,
    StreamStdinWithStdoutPipe,
    PipeStreamStdoutWithStdinPipe,
    PipeStreamStdinWithStdoutPipe,
    /// the first command of the pipeline was given a stderr pipe of its own
    PipeStreamStdoutMemberErrPipe,
}

#[derive(Clone, Copy, Debug, PartialEq, Serialize, Deserialize)]
pub enum Behaviour {
    ExitNow,
    ExitAfter(u8),
    /// read stdin to end-of-file, then exit
    ReadToEof,
    /// write n bytes to the relevant stream, then exit
    WriteThenExit(u32),
    /// write until the reader goes away
    Flood,
}

#[derive(Clone, Copy, Debug, PartialEq, Serialize, Deserialize)]
pub enum DropPoint {
    BeforeIo,
    AfterPartial(u32),
    AfterEof,
}

#[derive(Clone, Debug, Serialize, Deserialize)]
pub struct DropCase {
    pub handle: Handle,
    pub behaviour: Behaviour,
    pub drop_at: DropPoint,
    /// pipeline forms: number of stages (2..5) and per-stage delay after closing stdout
    pub stages: u8,
    pub stage_delay_ms: u8,
    pub exit_code: u8,
    /// the first read() of the launch - the parent waiting for the exec status of
    /// the (first) child - is interrupted by a signal handler (EINTR)
    #[serde(default)]
    pub interrupt_launch: bool,
}

#[derive(Debug, Default)]
struct Ran {
    error: Option<String>,
    pid: Option<u32>,
    log_from: usize,
    log_to: usize,
    bytes: usize,
    broken_pipe: bool,
}

fn child_cmd(helper: &std::path::Path, b: Behaviour, fd: i32, code: u8) -> Exec {
    let e = Exec::cmd(helper);
    match b {
        Behaviour::ExitNow => e.arg("exit").arg(code.to_string()),
        Behaviour::ExitAfter(ms) => e.arg("sleepexit").arg(ms.to_string()).arg(code.to_string()),
        Behaviour::ReadToEof => e.arg("holdread").arg(code.to_string()),
        Behaviour::WriteThenExit(n) => e.arg("writeexit").arg(fd.to_string()).arg(n.to_string()).arg(code.to_string()),
        Behaviour::Flood => e.arg("flood").arg(fd.to_string()),
    }
}

fn filter_cmd(helper: &std::path::Path, i: usize, delay: u8, markers: &std::path::Path) -> Exec {
    Exec::cmd(helper).arg("stage").arg(format!("T{}", i)).arg("0").arg(delay.to_string()).arg("0").arg(markers).arg(i.to_string())
}

fn read_some(r: &mut dyn Read, at: DropPoint) -> usize {
    match at {
        DropPoint::BeforeIo => 0,
        DropPoint::AfterPartial(n) => {
            let mut buf = vec![0u8; n.max(1) as usize];
            let mut got = 0;
            while got < buf.len() {
                match r.read(&mut buf[got..]) {
                    Ok(0) | Err(_) => break,
                    Ok(k) => got += k,
                }
            }
            got
        }
        DropPoint::AfterEof => {
            let mut b = vec![];
            r.read_to_end(&mut b).map(|_| b.len()).unwrap_or(0)
        }
    }
}

fn write_some(w: &mut dyn Write, at: DropPoint) -> usize {
    let n = match at {
        DropPoint::BeforeIo => return 0,
        DropPoint::AfterPartial(n) => n,
        DropPoint::AfterEof => 5000,
    };
    let buf = vec![b'z'; n as usize];
    match w.write_all(&buf) {
        Ok(()) => n as usize,
        Err(_) => 0,
    }
}

fn run_case(case: DropCase, helper: std::path::PathBuf, markers: std::path::PathBuf) -> Ran {
    if case.interrupt_launch {
        ip::counters_reset();
        ip::FAULT_TID.store(unsafe { libc::syscall(libc::SYS_gettid) } as i32, SeqCst);
        ip::fault_arm(ip::K_READ, 1, libc::EINTR, false);
        ip::COUNTING.store(true, SeqCst);
    }
    let interrupted = case.interrupt_launch;
    let ran = run_case_inner(case, helper, markers);
    if interrupted {
        ip::COUNTING.store(false, SeqCst);
        ip::fault_disarm();
        ip::FAULT_TID.store(0, SeqCst);
    }
    ran
}

fn run_case_inner(case: DropCase, helper: std::path::PathBuf, markers: std::path::PathBuf) -> Ran {
    let mut ran = Ran::default();
    let err = |e: subprocess::PopenError| e.to_string();
    let n = case.stages.clamp(2, 5) as usize;
    match case.handle {
        Handle::PopenPlain | Handle::PopenDetachedCfg | Handle::PopenDetachCall => {
            let cfg_out = true;
            let mut argv: Vec<std::ffi::OsString> = vec![helper.clone().into_os_string()];
            match case.behaviour {
                Behaviour::ExitNow => argv.extend(["exit".into(), case.exit_code.to_string().into()]),
                Behaviour::ExitAfter(ms) => argv.extend(["sleepexit".into(), ms.to_string().into(), case.exit_code.to_string().into()]),
                Behaviour::ReadToEof => argv.extend(["holdread".into(), case.exit_code.to_string().into()]),
                Behaviour::WriteThenExit(k) => argv.extend(["writeexit".into(), "1".into(), k.to_string().into(), case.exit_code.to_string().into()]),
                Behaviour::Flood => argv.extend(["flood".into(), "1".into()]),
            }
            let cfg = PopenConfig {
                stdin: Redirection::Pipe,
                stdout: if cfg_out { Redirection::Pipe } else { Redirection::None },
                detached: case.handle == Handle::PopenDetachedCfg,
                ..Default::default()
            };
            match Popen::create(&argv, cfg) {
                Err(e) => ran.error = Some(err(e)),
                Ok(mut p) => {
                    ran.pid = p.pid();
                    if case.handle == Handle::PopenDetachCall {
                        p.detach();
                    }
                    if let Some(o) = p.stdout.as_mut() {
                        // a child that waits for EOF on its stdin writes nothing and does not exit: no reading
                        let at = if case.behaviour == Behaviour::ReadToEof { DropPoint::BeforeIo } else { case.drop_at };
                        ran.bytes = read_some(o, at);
                    }
                    if case.handle == Handle::PopenPlain {
                        // a plain Popen's pipe ends are the caller's to release
                        drop(p.stdin.take());
                        drop(p.stdout.take());
                    }
                    ran.log_from = ip::log_snapshot().len();
                    drop(p);
                    ran.log_to = ip::log_snapshot().len();
                }
            }
        }
        Handle::ExecJoin => {
            // output goes to /dev/null
            let fd = 1;
            match child_cmd(&helper, case.behaviour, fd, case.exit_code).stdout(NullFile).stdin(NullFile).join() {
                Err(e) => ran.error = Some(err(e)),
                Ok(_) => {}
            }
        }
        Handle::ExecCapture => {
            // input data only for a child that reads it (a child that exits without
            // reading makes the parent's write fail with EPIPE, legitimately)
            let e = child_cmd(&helper, case.behaviour, 1, case.exit_code).stdout(Redirection::Pipe);
            // ExitNow / ExitAfter with input data: the child exits without reading, the
            // parent's write fails with EPIPE and capture() returns Err - the error path
            // must reap the child as well
            let feeds = matches!(case.behaviour, Behaviour::ReadToEof | Behaviour::ExitNow | Behaviour::ExitAfter(_));
            let e = if feeds { e.stdin(vec![b'i'; 300_000]) } else { e.stdin(NullFile) };
            match e.capture() {
                Err(subprocess::PopenError::IoError(ioe)) if ioe.kind() == std::io::ErrorKind::BrokenPipe && case.behaviour != Behaviour::ReadToEof => {
                    ran.broken_pipe = true;
                }
                Err(e) => ran.error = Some(err(e)),
                Ok(c) => ran.bytes = c.stdout.len(),
            }
        }
        Handle::StreamStdout => match child_cmd(&helper, case.behaviour, 1, case.exit_code).stdin(NullFile).stream_stdout() {
            Err(e) => ran.error = Some(err(e)),
            Ok(mut r) => {
                ran.bytes = read_some(&mut r, case.drop_at);
                drop(r);
            }
        },
        Handle::StreamStderr => match child_cmd(&helper, case.behaviour, 2, case.exit_code).stdin(NullFile).stream_stderr() {
            Err(e) => ran.error = Some(err(e)),
            Ok(mut r) => {
                ran.bytes = read_some(&mut r, case.drop_at);
                drop(r);
            }
        },
        Handle::StreamStdoutWithStdinPipe => match child_cmd(&helper, case.behaviour, 1, case.exit_code).stdin(Redirection::Pipe).stream_stdout() {
            Err(e) => ran.error = Some(err(e)),
            Ok(mut r) => {
                // a child waiting for EOF on its stdin writes nothing: no reading
                let at = if case.behaviour == Behaviour::ReadToEof { DropPoint::BeforeIo } else { case.drop_at };
                ran.bytes = read_some(&mut r, at);
                drop(r);
            }
        },
        Handle::StreamStdoutWithStderrPipe => match child_cmd(&helper, case.behaviour, 2, case.exit_code).stdin(NullFile).stderr(Redirection::Pipe).stream_stdout() {
            Err(e) => ran.error = Some(err(e)),
            Ok(mut r) => {
                // the child writes to stderr only; stdout just reaches EOF when it exits
                let at = if matches!(case.behaviour, Behaviour::WriteThenExit(n) if n > 60_000) || case.behaviour == Behaviour::Flood { DropPoint::BeforeIo } else { case.drop_at };
                ran.bytes = read_some(&mut r, at);
                drop(r);
            }
        },
        Handle::StreamStdinWithStdoutPipe => match child_cmd(&helper, case.behaviour, 1, case.exit_code).stdout(Redirection::Pipe).stream_stdin() {
            Err(e) => ran.error = Some(err(e)),
            Ok(mut w) => {
                ran.bytes = write_some(&mut w, if case.behaviour == Behaviour::ReadToEof { case.drop_at } else { DropPoint::BeforeIo });
                drop(w);
            }
        },
        Handle::StreamStdin => match child_cmd(&helper, case.behaviour, 1, case.exit_code).stdout(NullFile).stream_stdin() {
            Err(e) => ran.error = Some(err(e)),
            Ok(mut w) => {
                ran.bytes = write_some(&mut w, case.drop_at);
                drop(w);
            }
        },
        Handle::PipeJoin | Handle::PipeCapture | Handle::PipeStreamStdout | Handle::PipeStreamStdin | Handle::PipeStreamStdoutWithStdinPipe | Handle::PipeStreamStdinWithStdoutPipe | Handle::PipeStreamStdoutMemberErrPipe => {
            let mut cmds = vec![];
            let first = match case.handle {
                Handle::PipeStreamStdin | Handle::PipeStreamStdinWithStdoutPipe | Handle::PipeStreamStdoutWithStdinPipe => filter_cmd(&helper, 0, case.stage_delay_ms, &markers),
                Handle::PipeStreamStdoutMemberErrPipe => child_cmd(&helper, case.behaviour, 2, 0).stderr(Redirection::Pipe),
                _ => child_cmd(&helper, case.behaviour, 1, 0),
            };
            // which member holds the stderr pipe of its own: any position, inner ones included
            let err_member = if case.handle == Handle::PipeStreamStdoutMemberErrPipe { case.exit_code as usize % n } else { 0 };
            let first = if case.handle == Handle::PipeStreamStdoutMemberErrPipe && err_member != 0 { filter_cmd(&helper, 0, case.stage_delay_ms, &markers) } else { first };
            cmds.push(first);
            for i in 1..n {
                if case.handle == Handle::PipeStreamStdoutMemberErrPipe && i == err_member {
                    cmds.push(child_cmd(&helper, case.behaviour, 2, 0).stderr(Redirection::Pipe));
                    continue;
                }
                // later stages outlive earlier ones when they have a delay
                cmds.push(filter_cmd(&helper, i, if i + 1 == n { 0 } else { case.stage_delay_ms }, &markers));
            }
            let p = Pipeline::from_exec_iter(cmds);
            match case.handle {
                Handle::PipeJoin => match p.stdin(NullFile).stdout(NullFile).join() {
                    Err(e) => ran.error = Some(err(e)),
                    Ok(_) => {}
                },
                Handle::PipeCapture => match p.stdin(NullFile).capture() {
                    Err(e) => ran.error = Some(err(e)),
                    Ok(c) => ran.bytes = c.stdout.len(),
                },
                Handle::PipeStreamStdoutMemberErrPipe => match p.stdin(NullFile).stream_stdout() {
                    Err(e) => ran.error = Some(err(e)),
                    Ok(r) => {
                        // the first command may be stuck writing to its own stderr pipe: no reading
                        drop(r);
                    }
                },
                Handle::PipeStreamStdoutWithStdinPipe => match p.stdin(Redirection::Pipe).stream_stdout() {
                    Err(e) => ran.error = Some(err(e)),
                    Ok(r) => {
                        // every stage waits for its input: nothing to read before the drop
                        drop(r);
                    }
                },
                Handle::PipeStreamStdinWithStdoutPipe => match p.stdout(Redirection::Pipe).stream_stdin() {
                    Err(e) => ran.error = Some(err(e)),
                    Ok(mut w) => {
                        // more than the unread stdout pipe holds once it has passed through the filters
                        ran.bytes = write_some(&mut w, DropPoint::AfterPartial(60_000));
                        drop(w);
                    }
                },
                Handle::PipeStreamStdout => match p.stdin(NullFile).stream_stdout() {
                    Err(e) => ran.error = Some(err(e)),
                    Ok(mut r) => {
                        ran.bytes = read_some(&mut r, case.drop_at);
                        drop(r);
                    }
                },
                _ => match p.stdout(NullFile).stream_stdin() {
                    Err(e) => ran.error = Some(err(e)),
                    Ok(mut w) => {
                        ran.bytes = write_some(&mut w, case.drop_at);
                        drop(w);
                    }
                },
            }
        }
    }
    ran
}

fn pending_class(case: &DropCase) -> Option<String> {
    let unread = match (case.handle, case.behaviour, case.drop_at) {
        (Handle::StreamStdout | Handle::StreamStderr | Handle::PipeStreamStdout, Behaviour::Flood, _) => true,
        (Handle::StreamStdout | Handle::StreamStderr | Handle::PipeStreamStdout, Behaviour::WriteThenExit(n), DropPoint::BeforeIo) => n > 0,
        (Handle::StreamStdout | Handle::StreamStderr | Handle::PipeStreamStdout, Behaviour::WriteThenExit(n), DropPoint::AfterPartial(r)) => n > r,
        (Handle::PopenPlain, Behaviour::WriteThenExit(n), DropPoint::BeforeIo) => n > 0,
        (Handle::PopenPlain, Behaviour::Flood, _) => true,
        _ => false,
    };
    let hidden = match (case.handle, case.behaviour) {
        (Handle::StreamStdoutWithStdinPipe, Behaviour::ReadToEof) => true,
        (Handle::StreamStdoutWithStderrPipe | Handle::StreamStdinWithStdoutPipe, Behaviour::WriteThenExit(n)) => n > 0,
        (Handle::StreamStdoutWithStdinPipe | Handle::StreamStdoutWithStderrPipe | Handle::StreamStdinWithStdoutPipe, Behaviour::Flood) => true,
        _ => false,
    };
    let unread = unread || hidden;
    let unwritten = matches!((case.handle, case.behaviour), (Handle::StreamStdin | Handle::PipeStreamStdin | Handle::PopenPlain, Behaviour::ReadToEof));
    let hidden_pipeline = matches!(case.handle, Handle::PipeStreamStdoutWithStdinPipe | Handle::PipeStreamStdinWithStdoutPipe | Handle::PipeStreamStdoutMemberErrPipe);
    let unread = unread || hidden_pipeline;
    let outlive = matches!(case.handle, Handle::PipeJoin | Handle::PipeCapture | Handle::PipeStreamStdout | Handle::PipeStreamStdin) && case.stage_delay_ms > 0;
    let detached = matches!(case.handle, Handle::PopenDetachedCfg | Handle::PopenDetachCall);
    let err_path = case.handle == Handle::ExecCapture && matches!(case.behaviour, Behaviour::ExitNow | Behaviour::ExitAfter(_));
    if unread || unwritten || outlive || detached || err_path || case.interrupt_launch {
        let b = match case.behaviour {
            Behaviour::ExitNow => "exit".to_string(),
            Behaviour::ExitAfter(_) => "exit-late".to_string(),
            Behaviour::ReadToEof => "read-to-eof".to_string(),
            Behaviour::WriteThenExit(n) => format!("write-{}", if n == 0 { "0" } else if n <= 65536 { "<=pipe" } else { ">pipe" }),
            Behaviour::Flood => "flood".to_string(),
        };
        let d = match case.drop_at {
            DropPoint::BeforeIo => "before-io",
            DropPoint::AfterPartial(_) => "after-partial",
            DropPoint::AfterEof => "after-eof",
        };
        Some(format!("{:?}|{}|{}|unread{}|unwritten{}|outlive{}|errpath{}|intr{}", case.handle, b, d, unread as u8, unwritten as u8, outlive as u8, err_path as u8, case.interrupt_launch as u8))
    } else {
        None
    }
}

pub fn check_case(ctx: &Ctx, case: &DropCase, rep: &mut CaseReport) -> CaseResult {
    let sc = Scratch::new(&ctx.scratch, "c12");
    let markers = sc.subdir("m");
    let helper = vchild_path();
    reap_all();
    if let Some(c) = pending_class(case) {
        rep.nontrivial(c);
    }
    let fail = |sig: &str, msg: String| Err(Fail::new(format!("C12:{}", sig), format!("{}\ncase={:?}", msg, case)));
    ip::log_reset();
    ip::LOG_ON.store(true, SeqCst);
    let c2 = case.clone();
    let out = hang::run(move || run_case(c2, helper, markers), 30_000);
    ip::LOG_ON.store(false, SeqCst);
    let log = ip::log_snapshot();
    let ran = match out {
        HangOutcome::Returned(r) => r,
        HangOutcome::Deadlock(desc, _) => {
            reap_all();
            let dir = if desc.contains("blocked in write") { "child-blocked-writing-to-the-adapter's-pipe" } else { "child-waiting-for-eof" };
            return fail(&format!("drop-deadlock:{:?}:{}", case.handle, dir), format!("dropping / completing the handle never returns: {}", desc));
        }
        HangOutcome::Inconclusive(e) => {
            reap_all();
            ctx.inconclusive(format!("C12 case {:?}: {}", case, e));
            return Ok(());
        }
    };
    if let Some(e) = ran.error {
        if case.interrupt_launch && (e.contains("nterrupted") || e.contains("os error 4")) {
            // reporting the interruption is fine; what was started must still be reaped
            rep.count("interrupted_launches_reported_as_error", 1);
        } else {
            reap_all();
            return fail("unexpected-error", e);
        }
    }
    if ran.broken_pipe {
        rep.count("capture_error_paths", 1);
    }
    let detached = matches!(case.handle, Handle::PopenDetachedCfg | Handle::PopenDetachCall);
    if detached {
        // the drop made no wait call
        let waits = log[ran.log_from.min(log.len())..ran.log_to.min(log.len())].iter().filter(|r| r.kind as usize == ip::K_WAITPID).count();
        if waits > 0 {
            reap_all();
            return fail("detached-drop-waits", format!("dropping a detached Popen issued {} waitpid calls", waits));
        }
        // ... and did not reap: the child (running or zombie) is still ours to wait for
        let pid = ran.pid.unwrap_or(0) as i32;
        unsafe { ip::raw_kill(pid, libc::SIGKILL) };
        let mut st = 0;
        let r = unsafe { ip::raw_waitpid(pid, &mut st, 0) };
        if r != pid {
            reap_all();
            return fail("detached-drop-reaps", format!("after dropping a detached Popen waitpid({}) returned {} (the child had been reaped)", pid, r));
        }
        reap_all();
        return Ok(());
    }
    // every child has been reaped
    if let Err(e) = child_audit() {
        return fail(&format!("zombie:{:?}", case.handle), format!("after the handle was dropped / the call completed: {}", e));
    }
    Ok(())
}

pub fn case_strategy() -> impl Strategy<Value = DropCase> {
    let handle = prop_oneof![
        2 => Just(Handle::PopenPlain), 1 => Just(Handle::PopenDetachedCfg), 1 => Just(Handle::PopenDetachCall), 1 => Just(Handle::ExecJoin), 2 => Just(Handle::ExecCapture),
        3 => Just(Handle::StreamStdout), 3 => Just(Handle::StreamStderr), 2 => Just(Handle::StreamStdin),
        1 => Just(Handle::StreamStdoutWithStdinPipe), 1 => Just(Handle::StreamStdoutWithStderrPipe), 1 => Just(Handle::StreamStdinWithStdoutPipe),
        1 => Just(Handle::PipeStreamStdoutWithStdinPipe), 1 => Just(Handle::PipeStreamStdinWithStdoutPipe), 1 => Just(Handle::PipeStreamStdoutMemberErrPipe),
        1 => Just(Handle::PipeJoin), 2 => Just(Handle::PipeCapture), 3 => Just(Handle::PipeStreamStdout), 2 => Just(Handle::PipeStreamStdin)
    ];
    let behaviour = prop_oneof![
        1 => Just(Behaviour::ExitNow),
        1 => (1u8..50).prop_map(Behaviour::ExitAfter),
        2 => Just(Behaviour::ReadToEof),
        4 => prop_oneof![Just(0u32), Just(1u32), Just(65535u32), Just(65536u32), Just(65537u32), Just(655360u32), 0u32..200_000].prop_map(Behaviour::WriteThenExit),
        2 => Just(Behaviour::Flood),
    ];
    let drop_at = prop_oneof![3 => Just(DropPoint::BeforeIo), 3 => prop_oneof![Just(1u32), 1u32..70000].prop_map(DropPoint::AfterPartial), 2 => Just(DropPoint::AfterEof)];
    (handle, behaviour, drop_at, 2u8..6, prop_oneof![2 => Just(0u8), 1 => 1u8..40], any::<u8>(), prop_oneof![7 => Just(false), 1 => Just(true)]).prop_map(|(handle, behaviour, drop_at, stages, stage_delay_ms, exit_code, interrupt)| {
        // construction: only behaviours that terminate once the handle's own pipe is released
        let writes_ok = matches!(handle, Handle::StreamStdout | Handle::StreamStderr | Handle::PipeStreamStdout | Handle::PopenPlain | Handle::ExecCapture | Handle::PipeCapture | Handle::PipeJoin | Handle::ExecJoin | Handle::StreamStdoutWithStdinPipe | Handle::StreamStdoutWithStderrPipe | Handle::StreamStdinWithStdoutPipe | Handle::PipeStreamStdoutMemberErrPipe);
        let mut behaviour = behaviour;
        let mut drop_at = drop_at;
        match behaviour {
            Behaviour::WriteThenExit(_) if !writes_ok => behaviour = Behaviour::ReadToEof,
            Behaviour::Flood if !matches!(handle, Handle::StreamStdout | Handle::StreamStderr | Handle::PipeStreamStdout | Handle::PopenPlain | Handle::StreamStdoutWithStdinPipe | Handle::StreamStdoutWithStderrPipe | Handle::StreamStdinWithStdoutPipe | Handle::PipeStreamStdoutMemberErrPipe) => behaviour = Behaviour::ExitAfter(5),
            _ => {}
        }
        if behaviour == Behaviour::ReadToEof && matches!(handle, Handle::PopenDetachedCfg | Handle::PopenDetachCall) {
            // detached: the harness kills it afterwards anyway
        }
        if behaviour == Behaviour::Flood && drop_at == DropPoint::AfterEof {
            drop_at = DropPoint::AfterPartial(100_000);
        }
        if behaviour == Behaviour::ReadToEof && matches!(handle, Handle::StreamStdout | Handle::StreamStderr | Handle::PipeStreamStdout) {
            // stdin is /dev/null there: reads EOF at once
        }
        // an interrupted launch: only children that exit on their own whatever happens to their pipes
        let interrupt_launch = interrupt && !matches!(handle, Handle::PopenDetachedCfg | Handle::PopenDetachCall);
        if interrupt_launch {
            behaviour = match behaviour {
                Behaviour::ExitNow => Behaviour::ExitNow,
                Behaviour::ExitAfter(ms) => Behaviour::ExitAfter(ms),
                _ => Behaviour::ExitAfter(20),
            };
            drop_at = DropPoint::BeforeIo;
        }
        DropCase { handle, behaviour, drop_at, stages, stage_delay_ms, exit_code, interrupt_launch }
    })
}

fn worker(ctx: &Ctx) {
    quiet_panics();
    let n = ctx.tier.pick(300, 3000);
    ctx.explore("real", "c12", case_strategy(), n, 150, |c, rep| check_case(ctx, c, rep));
}

fn replay(ctx: &Ctx, _engine: &str, case: &Value) -> CaseResult {
    quiet_panics();
    let c: DropCase = serde_json::from_value(case.clone()).map_err(|e| Fail::new("bad-replay-file", e.to_string()))?;
    let mut rep = CaseReport::default();
    check_case(ctx, &c, &mut rep)
}

pub static C12: PropDef = PropDef {
    id: "C12",
    level: "exploration",
    rule: "proptest generates (handle kind in {Popen, Popen detached by config / by detach(), Exec join/capture/stream_stdout/stream_stderr/stream_stdin, Pipeline join/capture/stream_stdout/stream_stdin with 2..5 stages}, child behaviour in {exits at once, exits after <= 50 ms, reads stdin to EOF, writes N bytes (0, 1, pipe capacity -1/0/+1, 10 capacities, random) then exits, unbounded writer}, drop point in {before any I/O, after a partial read/write of r bytes, after EOF}, stage delays so that stages outlive the last one). Only behaviours that terminate once the handle's own pipe is released are generated. Oracle: the drop / call returns (otherwise the wait-for-graph oracle decides: harness thread in wait4(P) while P is blocked on a pipe whose other end only the harness holds = deadlock); afterwards waitpid(-1) reports ECHILD for every non-detached form; for a detached Popen the interposed waitpid log shows no call during the drop and the child is still waitable. Non-trivial = unread output or unwritten input pending at the drop, or a stage outliving the last one, or detached. Further handle kinds: stream adapters over a command (or pipeline, or pipeline member) that has a second stream set to Pipe - that pipe's parent end is locked inside the adapter and must be released before the wait as well. In an eighth of the cases the launch's exec-status read is interrupted (EINTR): whatever the launch reports, it must return and what it started must be reaped. In the pipeline forms the member that holds a stderr pipe of its own sits at any position, inner ones included.",
    assumptions: &["/proc/<pid>/syscall and /proc/<pid>/fd are readable (root)", "for a plain Popen the harness releases the pipe ends itself before the drop (they are the caller's)"],
    engines: "real",
    workers: |_| 16,
    worker,
    replay,
    exhaustive: false,
};
