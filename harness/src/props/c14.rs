//! C14: a pipeline failing to start part-way cleans up and returns promptly
//! (fault enumeration over length, failing position, cause, stdin kind,
//! terminator, detached).
use crate::hang::{self, HangOutcome};
use crate::interpose as ip;
use crate::props::c0104::quiet_panics;
use crate::real::*;
use crate::runner::*;
use serde::{Deserialize, Serialize};
use serde_json::Value;
use std::io::{Read, Write};
use std::sync::atomic::Ordering::SeqCst;
use subprocess::{Exec, Pipeline, PopenError, Redirection};

#[derive(Clone, Copy, Debug, PartialEq, Serialize, Deserialize)]
pub enum Cause {
    /// the k-th command names a program that does not exist
    Missing,
    /// fork() fails with EAGAIN at the k-th spawn
    Fork,
    /// the j-th pipe() of the whole start-up fails with EMFILE (k = j here)
    Pipe,
    /// the parent's read of the k-th command's exec status is interrupted by a
    /// signal handler (EINTR); the command itself may well be running by then
    StatusRead,
    /// the last command is refused for its configuration (stdout and stderr both
    /// Merge: a LogicError, not an operating-system error); k = n-1
    BadConfig,
}
#[derive(Clone, Copy, Debug, PartialEq, Serialize, Deserialize)]
pub enum SIn {
    Inherit,
    Pipe,
    Data,
    File,
}
#[derive(Clone, Copy, Debug, PartialEq, Serialize, Deserialize)]
pub enum STerm {
    Popen,
    Join,
    Capture,
    Communicate,
    StreamStdin,
    StreamStdout,
}

#[derive(Clone, Debug, Serialize, Deserialize)]
pub struct FailCase {
    pub n: usize,
    pub k: usize,
    pub cause: Cause,
    pub stdin: SIn,
    pub term: STerm,
    pub detached: bool,
    /// the commands that do get started stay around this long after their pipes
    /// were closed (a command is not obliged to exit at once)
    #[serde(default)]
    pub linger_ms: u32,
    /// ... and ignore SIGTERM meanwhile
    #[serde(default)]
    pub ign_term: bool,
    /// lines the started commands write to standard error before reading their input
    #[serde(default)]
    pub err_lines: u32,
    /// every command asks for setuid/setgid to the current (root) identity
    #[serde(default)]
    pub ids: bool,
    /// the started commands were given a stderr pipe of their own (Exec::stderr(Pipe)),
    /// which they fill before they look at their input
    #[serde(default)]
    pub member_err_pipe: bool,
    /// the first command writes to its stdout for as long as somebody reads it, so it
    /// cannot finish before the command behind it lets go
    #[serde(default)]
    pub first_floods: bool,
}

pub fn compatible(stdin: SIn, term: STerm) -> bool {
    match term {
        STerm::Join | STerm::StreamStdout => matches!(stdin, SIn::Inherit | SIn::File),
        STerm::Capture | STerm::Communicate => matches!(stdin, SIn::Inherit | SIn::File | SIn::Data),
        STerm::Popen => matches!(stdin, SIn::Inherit | SIn::Pipe | SIn::File),
        STerm::StreamStdin => stdin == SIn::Pipe,
    }
}

struct RunResult {
    err: Option<(String, Option<i32>)>,
    ok: bool,
}

fn build_and_run(case: &FailCase, helper: std::path::PathBuf, markers: std::path::PathBuf, infile: std::path::PathBuf) -> RunResult {
    let mut cmds: Vec<Exec> = vec![];
    for i in 0..case.n {
        let mut e = if case.first_floods && i == 0 && case.k > 0 {
            Exec::cmd(&helper).arg("flood").arg("1")
        } else if case.cause == Cause::Missing && i == case.k {
            Exec::cmd("/nonexistent/verif-no-such-program").arg("x")
        } else if case.cause == Cause::BadConfig && i == case.k {
            Exec::cmd(&helper).arg("stage").arg("Tx").arg("0").arg("0").arg("0").arg(&markers).arg(i.to_string()).stderr(Redirection::Merge)
        } else {
            Exec::cmd(&helper).arg("stage").arg(format!("T{}", i + 1)).arg((2 * case.err_lines).to_string()).arg(case.linger_ms.to_string()).arg("0").arg(&markers).arg(i.to_string()).arg(if case.ign_term { "igterm" } else { "-" })
        };
        if case.detached {
            e = e.detached();
        }
        if case.member_err_pipe && !(case.cause == Cause::Missing && i == case.k) {
            e = e.stderr(Redirection::Pipe);
        }
        if case.ids {
            use subprocess::ExecExt;
            e = e.setuid(0).setgid(0);
        }
        cmds.push(e);
    }
    let mut p = Pipeline::from_exec_iter(cmds);
    if case.cause == Cause::BadConfig {
        p = p.stdout(Redirection::Merge);
    }
    match case.stdin {
        SIn::Inherit => {}
        SIn::Pipe => {
            if case.term != STerm::StreamStdin {
                p = p.stdin(Redirection::Pipe);
            }
        }
        SIn::Data => p = p.stdin(b"some input data\n".to_vec()),
        SIn::File => p = p.stdin(std::fs::File::open(&infile).unwrap()),
    }
    let to_res = |e: PopenError| -> RunResult {
        let os = match &e {
            PopenError::IoError(io) => io.raw_os_error(),
            PopenError::LogicError(_) => Some(-1),
            _ => None,
        };
        RunResult { err: Some((e.to_string(), os)), ok: false }
    };
    let okr = RunResult { err: None, ok: true };
    match case.term {
        STerm::Popen => match p.popen() {
            Err(e) => to_res(e),
            Ok(mut v) => {
                drop(v[0].stdin.take());
                let last = v.len() - 1;
                if let Some(mut o) = v[last].stdout.take() {
                    let mut b = vec![];
                    let _ = o.read_to_end(&mut b);
                }
                for x in v.iter_mut() {
                    let _ = x.wait();
                }
                okr
            }
        },
        STerm::Join => match p.join() {
            Err(e) => to_res(e),
            Ok(_) => okr,
        },
        STerm::Capture => match p.capture() {
            Err(e) => to_res(e),
            Ok(_) => okr,
        },
        STerm::Communicate => match p.communicate() {
            Err(e) => to_res(e),
            Ok(mut c) => {
                let _ = c.read();
                okr
            }
        },
        STerm::StreamStdin => match p.stream_stdin() {
            Err(e) => to_res(e),
            Ok(mut w) => {
                let _ = w.write_all(b"abc");
                drop(w);
                okr
            }
        },
        STerm::StreamStdout => match p.stream_stdout() {
            Err(e) => to_res(e),
            Ok(mut r) => {
                let mut b = vec![];
                let _ = r.read_to_end(&mut b);
                drop(r);
                okr
            }
        },
    }
}

fn started(markers: &std::path::Path, n: usize) -> Vec<bool> {
    (0..n).map(|i| markers.join(format!("started.{}", i)).exists()).collect()
}

/// Wait until all children of this process are gone (detached case), reaping them.
fn drain_children(timeout_ms: u64) -> bool {
    wait_until(timeout_ms, || {
        let mut st = 0;
        loop {
            let r = unsafe { ip::raw_waitpid(-1, &mut st, libc::WNOHANG) };
            if r > 0 {
                continue;
            }
            return r < 0; // ECHILD: nothing left
        }
    })
}

pub fn check_case(ctx: &Ctx, case: &FailCase, rep: &mut CaseReport) -> CaseResult {
    let sc = Scratch::new(&ctx.scratch, "c14");
    let markers = sc.subdir("m");
    let infile = sc.path("in");
    std::fs::write(&infile, b"file input\n").unwrap();
    let helper = vchild_path();
    reap_all();
    let fail = |sig: &str, msg: String| Err(Fail::new(format!("C14:{}", sig), format!("{}\ncase={:?}", msg, case)));

    if case.k >= 1 || case.cause == Cause::Pipe {
        rep.nontrivial(format!("n{}|k{}|{:?}|{:?}|{:?}|det{}|linger{}|igterm{}|errlines{}|ids{}|ownerr{}|flood{}", case.n, case.k, case.cause, case.stdin, case.term, case.detached as u8, case.linger_ms, case.ign_term as u8, case.err_lines, case.ids as u8, case.member_err_pipe as u8, case.first_floods as u8));
    }

    let before = fd_snapshot();
    ip::counters_reset();
    ip::log_reset();
    ip::LOG_ON.store(true, SeqCst);
    match case.cause {
        Cause::Missing => {}
        Cause::Fork => ip::fault_arm(ip::K_FORK, case.k as u32 + 1, libc::EAGAIN, false),
        Cause::Pipe => ip::fault_arm(ip::K_PIPE, case.k as u32 + 1, libc::EMFILE, false),
        Cause::StatusRead => ip::fault_arm(ip::K_READ, case.k as u32 + 1, libc::EINTR, false),
        Cause::BadConfig => {}
    }
    ip::COUNTING.store(true, SeqCst);
    let c2 = case.clone();
    let (h2, m2, i2) = (helper.clone(), markers.clone(), infile.clone());
    let out = hang::run(
        move || {
            // read() faults are counted for this thread only (the deadlock monitor reads /proc meanwhile)
            if c2.cause == Cause::StatusRead {
                ip::FAULT_TID.store(unsafe { libc::syscall(libc::SYS_gettid) } as i32, SeqCst);
            }
            let r = build_and_run(&c2, h2, m2, i2);
            ip::FAULT_TID.store(0, SeqCst);
            r
        },
        20_000,
    );
    ip::COUNTING.store(false, SeqCst);
    let fault_hit = ip::FAULT_HIT.load(SeqCst);
    ip::fault_disarm();
    ip::LOG_ON.store(false, SeqCst);
    let log = ip::log_snapshot();

    let res = match out {
        HangOutcome::Returned(r) => r,
        HangOutcome::Deadlock(desc, _) => {
            reap_all();
            let who = if desc.contains("read(fd 0)") { "first-stage-waits-for-eof-on-stdin" } else { "other" };
            return fail(&format!("hang:{}:{:?}", who, case.term), format!("starting the pipeline never returns: {}", desc));
        }
        HangOutcome::Inconclusive(e) => {
            reap_all();
            ctx.inconclusive(format!("C14 case {:?}: {}", case, e));
            return Ok(());
        }
    };
    if case.cause == Cause::StatusRead && res.ok {
        // the interruption was absorbed (retried): the pipeline simply ran
        if case.detached {
            drain_children(10_000);
        }
        reap_all();
        let after = fd_snapshot();
        let d = fd_diff(&before, &after, false);
        if !d.is_empty() {
            return fail("fd-leak", d.join("; "));
        }
        return Ok(());
    }
    if !matches!(case.cause, Cause::Missing | Cause::BadConfig) && fault_hit == 0 {
        // ordinal beyond what this configuration uses: nothing failed, nothing to judge
        if !res.ok {
            return fail("error-without-fault", format!("{:?}", res.err));
        }
        if case.detached {
            drain_children(10_000);
        }
        reap_all();
        return Ok(());
    }
    // 1. the error is returned
    let (msg, os) = match res.err {
        Some(e) => e,
        None => {
            reap_all();
            return fail("no-error", "the pipeline reported success although a command could not be started".into());
        }
    };
    let want_errno = match case.cause {
        Cause::Missing => libc::ENOENT,
        Cause::Fork => libc::EAGAIN,
        Cause::Pipe => libc::EMFILE,
        Cause::StatusRead => libc::EINTR,
        Cause::BadConfig => -1,
    };
    if os != Some(want_errno) {
        reap_all();
        return fail("wrong-error", format!("error {:?} (os error {:?}), expected os error {}", msg, os, want_errno));
    }
    // 2. nothing after the failing command was started: no fork after the failing call
    let forks: Vec<&ip::LogRec> = log.iter().filter(|r| r.kind as usize == ip::K_FORK).collect();
    match case.cause {
        Cause::Missing => {
            if forks.len() != case.k + 1 {
                reap_all();
                return fail("later-command-started", format!("{} fork calls, expected {} (failing position {})", forks.len(), case.k + 1, case.k));
            }
        }
        Cause::Fork => {
            if forks.len() != case.k + 1 || forks.last().map(|r| r.ret) != Some(-1) {
                reap_all();
                return fail("later-command-started", format!("{} fork calls, expected {} with the last one failing", forks.len(), case.k + 1));
            }
        }
        Cause::BadConfig => {
            // refused before anything is forked for it
            if forks.len() != case.k {
                reap_all();
                return fail("later-command-started", format!("{} fork calls, expected {} (command {} is refused for its configuration)", forks.len(), case.k, case.k));
            }
        }
        Cause::StatusRead => {
            if forks.len() != case.k + 1 {
                reap_all();
                return fail("later-command-started", format!("{} fork calls, expected {} (status read of command {} interrupted)", forks.len(), case.k + 1, case.k));
            }
        }
        Cause::Pipe => {
            let fail_idx = log.iter().position(|r| r.kind as usize == ip::K_PIPE && r.ret == -1);
            if let Some(fi) = fail_idx {
                if log[fi..].iter().any(|r| r.kind as usize == ip::K_FORK) {
                    reap_all();
                    return fail("later-command-started", "a fork was issued after the failing pipe()".into());
                }
            }
        }
    }
    // 3. children: waited for unless detached (Pipeline::communicate detaches by design)
    let detached = case.detached || case.term == STerm::Communicate;
    if detached && case.linger_ms > 0 && case.k >= 1 && matches!(case.cause, Cause::Missing | Cause::Fork) {
        // the started commands stay around for a while after their pipes were closed; a
        // detached command is neither waited for nor reaped, so right after the call at
        // least one of them is still ours (running, or a zombie nobody has collected)
        let mut info: libc::siginfo_t = unsafe { std::mem::zeroed() };
        let r = unsafe { libc::waitid(libc::P_ALL, 0, &mut info, libc::WEXITED | libc::WNOHANG | libc::WNOWAIT) };
        let none_left = r == -1 && std::io::Error::last_os_error().raw_os_error() == Some(libc::ECHILD);
        if none_left {
            return fail("detached-command-waited-for", format!("the call returned only after the detached commands started before the failure had exited ({} ms after their pipes were closed) and it collected them", case.linger_ms));
        }
    }
    if !detached {
        if let Err(e) = child_audit() {
            return fail("children-left", format!("after the failed start returned: {}", e));
        }
    } else if !drain_children(10_000) {
        let e = child_audit().err().unwrap_or_default();
        return fail("orphans-never-finish", format!("detached commands of the failed pipeline are still running after 10 s (their pipes were not closed): {}", e));
    }
    // started markers form a prefix (and for a missing program exactly 0..k)
    let mut st = started(&markers, case.n);
    if case.first_floods && case.k > 0 {
        st[0] = true; // (the flooding helper leaves no marker)
    }
    let first_not = st.iter().position(|s| !*s).unwrap_or(case.n);
    if st[first_not..].iter().any(|s| *s) {
        return fail("later-command-started", format!("started markers {:?}", st));
    }
    if case.cause == Cause::StatusRead {
        // the interrupted command itself may have started
        if first_not > case.k + 1 {
            return fail("later-command-started", format!("started markers {:?}, interrupted position {}", st, case.k));
        }
    }
    if matches!(case.cause, Cause::Missing | Cause::BadConfig) && first_not > case.k {
        return fail("later-command-started", format!("started markers {:?}, failing position {}", st, case.k));
    }
    // 4. no descriptor of the attempt remains
    let after = fd_snapshot();
    let d = fd_diff(&before, &after, false);
    if !d.is_empty() {
        return fail("fd-leak", d.join("; "));
    }
    Ok(())
}

pub fn enumerate(tier: Tier) -> Vec<FailCase> {
    let mut v = vec![];
    let maxn = tier.pick(5, 6);
    let causes: Vec<Cause> = if tier == Tier::Thorough { vec![Cause::Missing, Cause::Fork, Cause::StatusRead, Cause::Pipe] } else { vec![Cause::Missing, Cause::Fork, Cause::StatusRead] };
    for n in 2..=maxn {
        // a configuration error at the last position
        for stdin in [SIn::Inherit, SIn::Pipe, SIn::File] {
            for term in [STerm::Popen, STerm::Join, STerm::StreamStdin] {
                if compatible(stdin, term) {
                    v.push(FailCase { n, k: n - 1, cause: Cause::BadConfig, stdin, term, detached: false, linger_ms: 0, ign_term: false, err_lines: 0, ids: false, member_err_pipe: false, first_floods: false });
                }
            }
        }
        for cause in &causes {
            let kmax = if *cause == Cause::Pipe { 2 * n + 2 } else { n };
            for k in 0..kmax {
                for stdin in [SIn::Inherit, SIn::Pipe, SIn::Data, SIn::File] {
                    for term in [STerm::Popen, STerm::Join, STerm::Capture, STerm::Communicate, STerm::StreamStdin, STerm::StreamStdout] {
                        if !compatible(stdin, term) {
                            continue;
                        }
                        for detached in [false, true] {
                            v.push(FailCase { n, k, cause: *cause, stdin, term, detached, linger_ms: 0, ign_term: false, err_lines: 0, ids: false, member_err_pipe: false, first_floods: false });
                        }
                        if *cause == Cause::Missing && k >= 1 && matches!(term, STerm::Popen | STerm::Join | STerm::StreamStdin | STerm::StreamStdout) && n <= 4 {
                            // started commands with a stderr pipe of their own, filled beyond its capacity
                            v.push(FailCase { n, k, cause: *cause, stdin, term, detached: false, linger_ms: 0, ign_term: false, err_lines: 15000, ids: false, member_err_pipe: true, first_floods: false });
                        }
                        if *cause == Cause::Missing && k >= 2 && matches!(term, STerm::Popen | STerm::Join | STerm::StreamStdout) && matches!(stdin, SIn::Inherit | SIn::File) && n <= 4 {
                            // ... and a first command that cannot finish before the second lets go
                            v.push(FailCase { n, k, cause: *cause, stdin, term, detached: false, linger_ms: 0, ign_term: false, err_lines: 15000, ids: false, member_err_pipe: true, first_floods: true });
                        }
                        if *cause == Cause::Missing {
                            // commands that also change identity (to the identity they already have)
                            v.push(FailCase { n, k, cause: *cause, stdin, term, detached: false, linger_ms: 0, ign_term: false, err_lines: 0, ids: true, member_err_pipe: false, first_floods: false });
                        }
                        // started commands that take their time, ignore SIGTERM, or have
                        // filled the shared stderr pipe before the failure is noticed
                        if k >= 1 && *cause == Cause::Missing && (n <= 3 || tier == Tier::Thorough) {
                            v.push(FailCase { n, k, cause: *cause, stdin, term, detached: false, linger_ms: 300, ign_term: false, err_lines: 0, ids: false, member_err_pipe: false, first_floods: false });
                            v.push(FailCase { n, k, cause: *cause, stdin, term, detached: false, linger_ms: 600, ign_term: true, err_lines: 0, ids: false, member_err_pipe: false, first_floods: false });
                            // detached commands that take their time: not to be waited for
                            v.push(FailCase { n, k, cause: *cause, stdin, term, detached: true, linger_ms: 400, ign_term: false, err_lines: 0, ids: false, member_err_pipe: false, first_floods: false });
                            if term == STerm::Communicate {
                                v.push(FailCase { n, k, cause: *cause, stdin, term, detached: false, linger_ms: 400, ign_term: false, err_lines: 0, ids: false, member_err_pipe: false, first_floods: false });
                            }
                            if matches!(term, STerm::Capture | STerm::Communicate) {
                                v.push(FailCase { n, k, cause: *cause, stdin, term, detached: false, linger_ms: 0, ign_term: false, err_lines: 15000, ids: false, member_err_pipe: false, first_floods: false });
                            }
                        }
                    }
                }
            }
        }
    }
    v
}

fn worker(ctx: &Ctx) {
    quiet_panics();
    let all = enumerate(ctx.tier);
    for (i, c) in all.iter().enumerate() {
        if i % ctx.nworkers != ctx.worker {
            continue;
        }
        ctx.run_case("real+fault", c, |rep| check_case(ctx, c, rep));
    }
}

fn replay(ctx: &Ctx, _engine: &str, case: &Value) -> CaseResult {
    quiet_panics();
    let c: FailCase = serde_json::from_value(case.clone()).map_err(|e| Fail::new("bad-replay-file", e.to_string()))?;
    let mut rep = CaseReport::default();
    check_case(ctx, &c, &mut rep)
}

pub static C14: PropDef = PropDef {
    id: "C14",
    level: "fault_enumeration",
    rule: "full enumeration of (pipeline length n = 2..5 (thorough 2..6), failing position k = 0..n-1, cause in {program that does not exist, fork() failing with EAGAIN at the k-th spawn; thorough also the j-th pipe() failing with EMFILE for every j}, pipeline stdin in {inherit, pipe, data, file}, terminator in {popen, join, capture, communicate, stream_stdin, stream_stdout} where the pair is expressible, detached on/off). Earlier stages are helper filters that read stdin to end-of-file. Oracle: the terminator returns Err with the failing step's errno; no fork after the failing step and no started-marker beyond it; the call returns (a non-returning call is judged by the wait-for-graph oracle: harness thread in wait4(P), P blocked on a pipe whose other end only the harness holds); afterwards waitpid(-1) says ECHILD (detached: the orphans terminate by themselves because their pipes were closed) and the descriptor table equals the one before. Non-trivial = k >= 1 (something had already been started) or a pipe fault; distinct = distinct enumerated cases. Further causes: the parent's read of the k-th command's exec status interrupted by EINTR (the launch may absorb it; it must not hang), a configuration error (LogicError) at the last position. Further variants of the started commands: they linger 300 ms after their pipes are closed, linger 600 ms ignoring SIGTERM, write 15 000 lines to the shared stderr capture pipe or to a stderr pipe of their own before reading, ask for setuid/setgid to the identity they have; detached commands that linger 400 ms must still be the caller's children (running or uncollected) right after the call. With members that hold stderr pipes of their own, a first command that writes to its stdout for as long as it is read (it cannot finish before the command behind it lets go).",
    assumptions: &["/proc/<pid>/syscall and /proc/<pid>/fd are readable (root)", "helper stages exit once their stdin reaches end-of-file"],
    engines: "real",
    workers: |_| 16,
    worker,
    replay,
    exhaustive: true,
};
