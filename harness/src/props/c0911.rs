//! C09-C11: exit status truth/finality, signals only to the live child,
//! poll/wait_timeout timing (engine simproc).
use crate::interpose as ip;
use crate::props::c0104::{quiet_panics, PANIC_MSG};
use crate::runner::*;
use crate::simproc::*;
use crate::simproc::Agg;
use proptest::prelude::*;
use serde::{Deserialize, Serialize};
use serde_json::Value;
use std::sync::atomic::Ordering::SeqCst;
use std::time::Duration;
use subprocess::unix::PopenExt;
use subprocess::{ExitStatus, Popen, PopenConfig};

#[derive(Clone, Debug, PartialEq, Serialize, Deserialize)]
pub enum HOp {
    Poll,
    Wait,
    WaitTimeout(u64),
    Pid,
    ExitStatus,
    Terminate,
    Kill,
    SendSignal(u8),
    Detach,
    Advance(u64),
    ExternalReap,
    Drop,
    /// the Popen is dropped by stack unwinding (its owner panicked)
    DropUnwinding,
}

#[derive(Clone, Debug, Serialize, Deserialize)]
pub struct ProcCase {
    pub plan: ProcPlan,
    pub ops: Vec<HOp>,
}

#[derive(Clone, Debug)]
pub enum OpResult {
    Status(Result<Option<ExitStatus>, String>),
    Pid(Option<u32>),
    Unit(Result<(), String>),
    Skipped(&'static str),
    None,
}

#[derive(Clone, Debug)]
pub struct OpRec {
    pub op: HOp,
    pub res: OpResult,
    pub log_from: usize,
    pub log_to: usize,
    pub t_before: i64,
    pub t_after: i64,
    /// exit instant as planned at the moment the op started (signals sent during the op may change it)
    pub exit_at_before: Option<i64>,
    pub exit_at_after: Option<i64>,
    /// the child was stopped (job control) when the operation ended; signals are
    /// sent by operations only, so it was stopped during the whole operation too
    pub stopped_after: bool,
    pub dead_after: bool,
    pub agg: Agg,
}

pub struct ProcOutcome {
    pub pid: i32,
    pub recs: Vec<OpRec>,
    pub log: Vec<Ev>,
    pub hang: bool,
    pub over_budget: bool,
    pub panicked: Option<String>,
    pub final_status_word: i32,
}

fn decode(word: i32) -> ExitStatus {
    if word & 0x7f == 0 {
        ExitStatus::Exited(((word >> 8) & 0xff) as u32)
    } else {
        ExitStatus::Signaled((word & 0x7f) as u8)
    }
}

/// The duration an `HOp::WaitTimeout` stands for: nanoseconds, except that
/// u64::MAX is `Duration::MAX` (the "wait without limit" idiom; no u64
/// nanosecond count comes near the range of the clock).
pub fn wt_duration(d: u64) -> Duration {
    if d == u64::MAX {
        Duration::MAX
    } else {
        Duration::from_nanos(d)
    }
}

pub fn run_proc(case: &ProcCase) -> ProcOutcome {
    let pid = ip::FAKE_PID_NEXT.load(SeqCst);
    let mut sim = Box::new(SimProc::new(pid, case.plan.clone()));
    let simp: *mut SimProc = &mut *sim;
    unsafe { ip::sim_install(simp as *mut dyn ip::SimHooks) };
    ip::VCLOCK_NS.store(sim.now, SeqCst);
    ip::SIM_CLOCK.store(true, SeqCst);
    ip::SIM_PROC.store(true, SeqCst);
    PANIC_MSG.with(|m| *m.borrow_mut() = None);
    let mut recs: Vec<OpRec> = vec![];
    let ops = case.ops.clone();
    let setpgid_cfg = case.plan.setpgid;
    ip::IN_LIB.store(true, SeqCst);
    let res = std::panic::catch_unwind(std::panic::AssertUnwindSafe(|| {
        ip::FAKE_FORK.store(true, SeqCst);
        let created = Popen::create(&["/nonexistent/verif-fake"], PopenConfig { setpgid: setpgid_cfg, ..Default::default() });
        ip::FAKE_FORK.store(false, SeqCst);
        let mut popen = match created {
            Ok(p) => Some(p),
            Err(e) => panic!("fake-fork Popen::create failed: {}", e),
        };
        for op in ops {
            let sim = unsafe { &mut *simp };
            if popen.is_none() || sim.hang || sim.over_budget {
                break;
            }
            let log_from = sim.log.len();
            let t_before = sim.now;
            let exit_at_before = sim.exit_at;
            // per-operation system call budget (turns a busy loop into a verdict)
            sim.calls = 0;
            sim.agg = Agg::default();
            sim.op_log_start = sim.log.len();
            sim.budget = match &op {
                // an unbounded wait (u64::MAX stands for Duration::MAX) may legitimately
                // keep checking until the child ends
                HOp::WaitTimeout(d) if *d == u64::MAX => 256 + 4 * ((sim.exit_at.unwrap_or(sim.now) - sim.now).max(0) as u64 / 100_000_000),
                HOp::WaitTimeout(d) => 256 + 4 * (*d / 100_000_000),
                _ => 2000,
            };
            let p = popen.as_mut().unwrap();
            // "will the child ever be reapable": needed to construct only
            // histories in which a blocking wait can return
            let mortal = (sim.exit_at.is_some() && !sim.stopped) || sim.reaped;
            let res = match &op {
                HOp::Poll => OpResult::Status(Ok(p.poll())),
                HOp::Wait => {
                    if mortal || p.exit_status().is_some() {
                        OpResult::Status(p.wait().map(Some).map_err(|e| e.to_string()))
                    } else {
                        OpResult::Skipped("child never exits")
                    }
                }
                HOp::WaitTimeout(d) if *d == u64::MAX && !(mortal || p.exit_status().is_some()) => OpResult::Skipped("child never exits"),
                HOp::WaitTimeout(d) => OpResult::Status(p.wait_timeout(wt_duration(*d)).map_err(|e| e.to_string())),
                HOp::Pid => OpResult::Pid(p.pid()),
                HOp::ExitStatus => OpResult::Status(Ok(p.exit_status())),
                HOp::Terminate => OpResult::Unit(p.terminate().map_err(|e| e.to_string())),
                HOp::Kill => OpResult::Unit(p.kill().map_err(|e| e.to_string())),
                HOp::SendSignal(s) => OpResult::Unit(p.send_signal(*s as i32).map_err(|e| e.to_string())),
                HOp::Detach => {
                    p.detach();
                    OpResult::None
                }
                HOp::Advance(ns) => {
                    sim.advance(*ns);
                    OpResult::None
                }
                HOp::ExternalReap => {
                    if sim.external_reap() {
                        OpResult::None
                    } else {
                        OpResult::Skipped("child not dead or already reaped")
                    }
                }
                HOp::Drop => {
                    // a non-detached drop waits: only when that can return
                    // (detached state is not observable: try and see; the generator
                    // places Drop last and the interpreter guards with `mortal`)
                    if mortal || p.exit_status().is_some() || DETACHED.with(|d| d.get()) {
                        drop(popen.take());
                        OpResult::None
                    } else {
                        OpResult::Skipped("drop would wait forever")
                    }
                }
                HOp::DropUnwinding => {
                    if mortal || p.exit_status().is_some() || DETACHED.with(|d| d.get()) {
                        let taken = popen.take();
                        let _ = std::panic::catch_unwind(std::panic::AssertUnwindSafe(move || {
                            let _owned = taken;
                            panic!("verif: owner of the Popen panics");
                        }));
                        PANIC_MSG.with(|m| *m.borrow_mut() = None);
                        OpResult::None
                    } else {
                        OpResult::Skipped("drop would wait forever")
                    }
                }
            };
            if matches!(op, HOp::Detach) {
                DETACHED.with(|d| d.set(true));
            }
            let sim = unsafe { &mut *simp };
            recs.push(OpRec { op, res, log_from, log_to: sim.log.len(), t_before, t_after: sim.now, exit_at_before, exit_at_after: sim.exit_at, stopped_after: sim.stopped, dead_after: sim.dead(), agg: sim.agg });
        }
        // final drop (if still alive in the model the harness makes it mortal first)
        let sim = unsafe { &mut *simp };
        if let Some(p) = popen.take() {
            sim.resume();
            sim.pending_sig = None;
            if sim.exit_at.is_none() && !sim.reaped {
                sim.exit_at = Some(sim.now);
            }
            let from = sim.log.len();
            let t_before = sim.now;
            drop(p);
            let sim = unsafe { &mut *simp };
            recs.push(OpRec { op: HOp::Drop, res: OpResult::Skipped("implicit"), log_from: from, log_to: sim.log.len(), t_before, t_after: sim.now, exit_at_before: sim.exit_at, exit_at_after: sim.exit_at, stopped_after: sim.stopped, dead_after: sim.dead(), agg: Agg::default() });
        }
    }));
    ip::IN_LIB.store(false, SeqCst);
    DETACHED.with(|d| d.set(false));
    ip::FAKE_FORK.store(false, SeqCst);
    ip::sim_uninstall();
    let panicked = match res {
        Ok(()) => None,
        Err(_) => Some(PANIC_MSG.with(|m| m.borrow_mut().take()).unwrap_or_else(|| "panic".into())),
    };
    let sim = *sim;
    ProcOutcome { pid, recs, log: sim.log, hang: sim.hang, over_budget: sim.over_budget, panicked, final_status_word: sim.status_word }
}

thread_local! {
    static DETACHED: std::cell::Cell<bool> = const { std::cell::Cell::new(false) };
}

fn describe(case: &ProcCase, o: &ProcOutcome) -> String {
    let mut s = format!("plan={:?}\npid={}\n", case.plan, o.pid);
    for (i, r) in o.recs.iter().enumerate() {
        s.push_str(&format!(
            "#{} {:?} -> {:?}  t=[{}..{}] exit_at={:?} log={:?}\n",
            i,
            r.op,
            r.res,
            r.t_before - 5_000_000_000_000,
            r.t_after - 5_000_000_000_000,
            r.exit_at_before.map(|x| x - 5_000_000_000_000),
            if r.log_to - r.log_from > 12 { format!("{} events, first {:?} last {:?}", r.log_to - r.log_from, &o.log[r.log_from], &o.log[r.log_to - 1]) } else { format!("{:?}", &o.log[r.log_from..r.log_to]) }
        ));
    }
    s
}

#[derive(Clone, Copy, PartialEq)]
pub enum Focus {
    C09,
    C10,
    C11,
}

/// Walk the history with the reference model; returns the first violation of
/// the focused property.
pub fn judge(focus: Focus, case: &ProcCase, o: &ProcOutcome, rep: &mut CaseReport) -> CaseResult {
    let pfx = match focus {
        Focus::C09 => "C09",
        Focus::C10 => "C10",
        Focus::C11 => "C11",
    };
    if let Some(p) = &o.panicked {
        return Err(Fail::new(format!("{}:panic", pfx), format!("{}\n{}", p, describe(case, o))));
    }
    let fail = |sig: &str, msg: String| -> CaseResult { Err(Fail::new(format!("{}:{}", pfx, sig), format!("{}\n{}", msg, describe(case, o)))) };
    if o.hang && focus != Focus::C10 {
        return fail("hang", "a blocking wait was issued on a child that never exits".into());
    }
    if o.over_budget {
        return fail(if focus == Focus::C11 { "busy-loop" } else { "call-never-returns" }, "system call budget of the operation exhausted (the call keeps issuing system calls)".into());
    }
    // model state: what a correct Popen knows
    let mut known: Option<ExitStatus> = None;
    let mut first_report_method: Option<String> = None;
    let mut methods_after: Vec<&'static str> = vec![];
    let mut ext_reap = false;
    let mut sig_before = 0;
    let mut sig_after = 0;
    let mut exit_between = false;
    let mut c11_class: Option<String> = None;
    for (i, r) in o.recs.iter().enumerate() {
        let evs = &o.log[r.log_from..r.log_to];
        let nwait = if matches!(r.op, HOp::Drop) && matches!(r.res, OpResult::Skipped("implicit")) { evs.iter().filter(|e| matches!(e, Ev::Waitpid { .. })).count() } else { r.agg.nwait as usize };
        let nkill = evs.iter().filter(|e| matches!(e, Ev::Kill { .. })).count();
        let nsleep = if matches!(r.op, HOp::Drop) && matches!(r.res, OpResult::Skipped("implicit")) { 0 } else { r.agg.nsleep as usize };
        let known_before = known;
        // what this op's system calls revealed
        let mut learned: Option<ExitStatus> = None;
        for e in evs {
            if let Ev::Waitpid { pid, ret, status, err, .. } = e {
                if *pid == o.pid {
                    if *ret == o.pid && *status & 0xff != 0x7f && *status != 0xffff {
                        // (a stop or continue report is not a termination)
                        learned = Some(decode(*status));
                    } else if *ret < 0 && *err == libc::ECHILD {
                        learned = Some(ExitStatus::Undetermined);
                    }
                }
            }
        }
        // ---- C10 (any op): every kill goes to our pid, with the right signal, only while not known
        for e in evs {
            if let Ev::Kill { pid, sig, target_reaped, .. } = e {
                if focus == Focus::C10 {
                    if *pid != o.pid {
                        return fail("stray-signal", format!("op #{}: kill({}, {}) issued; the child's pid is {}", i, pid, sig, o.pid));
                    }
                    if known_before.is_some() {
                        return fail("signal-after-status-known", format!("op #{}: kill({}, {}) although the status {:?} had already been observed (target reaped: {})", i, pid, sig, known_before, target_reaped));
                    }
                }
            }
        }
        if known_before.is_some() && (nwait > 0 || nkill > 0) && focus == Focus::C09 {
            return fail("syscall-after-final", format!("op #{}: {} waitpid / {} kill calls although the status {:?} was already known", i, nwait, nkill, known_before));
        }
        match (&r.op, &r.res) {
            (HOp::Poll | HOp::Wait | HOp::WaitTimeout(_) | HOp::ExitStatus, OpResult::Status(st)) => {
                let is_query_syscall = !matches!(r.op, HOp::ExitStatus);
                // a blocking wait interrupted by a signal handler may surface the
                // EINTR as an error; it must not turn it into a status
                let interrupted = evs.iter().any(|e| matches!(e, Ev::Waitpid { ret: -1, err, .. } if *err == libc::EINTR));
                let st = match st {
                    Ok(s) => *s,
                    Err(_) if interrupted => None,
                    Err(e) => {
                        if focus == Focus::C09 || (focus == Focus::C11 && matches!(r.op, HOp::Poll | HOp::WaitTimeout(_))) {
                            return fail("query-error", format!("op #{}: {:?} returned Err({})", i, r.op, e));
                        }
                        None
                    }
                };
                let expect_known = if is_query_syscall { known_before.or(learned) } else { known_before };
                if focus == Focus::C09 {
                    match (st, expect_known) {
                        (Some(got), Some(want)) => {
                            if got != want {
                                let kind = if known_before.is_some() { "status-changed" } else { "wrong-status" };
                                return fail(kind, format!("op #{}: {:?} reported {:?}, truth/previous is {:?}", i, r.op, got, want));
                            }
                        }
                        (Some(got), None) => {
                            return fail("status-while-running", format!("op #{}: {:?} reported {:?} although no wait call had observed the child's end (child dead at return: {})", i, r.op, got, r.dead_after));
                        }
                        (None, Some(want)) => {
                            if matches!(r.op, HOp::ExitStatus) || known_before.is_some() || is_query_syscall {
                                return fail("status-forgotten", format!("op #{}: {:?} reported no status although {:?} is known", i, r.op, want));
                            }
                        }
                        (None, None) => {
                            if matches!(r.op, HOp::Wait) && !interrupted {
                                return fail("wait-returned-nothing", format!("op #{}", i));
                            }
                        }
                    }
                }
                if is_query_syscall {
                    if known_before.is_none() && learned.is_some() && first_report_method.is_none() {
                        first_report_method = Some(format!("{:?}", r.op).split('(').next().unwrap().to_string());
                        if matches!(r.exit_at_before, Some(x) if x > r.t_before) {
                            exit_between = true;
                        }
                    }
                    known = known_before.or(learned);
                }
                if known_before.is_some() {
                    methods_after.push(match r.op {
                        HOp::Poll => "poll",
                        HOp::Wait => "wait",
                        HOp::WaitTimeout(_) => "wait_timeout",
                        _ => "exit_status",
                    });
                }
                // ---- C11 timing
                if focus == Focus::C11 {
                    match &r.op {
                        HOp::Poll => {
                            if nsleep > 0 {
                                return fail("poll-sleeps", format!("op #{}: poll() slept {} times", i, nsleep));
                            }
                            if nwait > 1 {
                                return fail("poll-many-waits", format!("op #{}: poll() made {} waitpid calls", i, nwait));
                            }
                            if r.agg.blocking_wait {
                                return fail("poll-blocks", format!("op #{}: poll() issued a blocking waitpid", i));
                            }
                        }
                        HOp::WaitTimeout(d) => {
                            let d = (*d).min(i64::MAX as u64) as i64;
                            let cost = case.plan.cost_ns as i64;
                            let slack = 1_000_000 + 40 * cost;
                            if known_before.is_some() {
                                if !evs.is_empty() {
                                    return fail("wait_timeout-syscalls-when-known", format!("op #{}: {} system calls although the status was known", i, evs.len()));
                                }
                            } else {
                                let t0 = r.t_before;
                                let tr = r.t_after;
                                let dl = t0.saturating_add(d);
                                // includes signals sent earlier; a stopped child does not exit
                                // (its exit is put off until somebody continues it)
                                let x = if r.stopped_after { None } else { r.exit_at_after };
                                if r.agg.blocking_wait {
                                    return fail("wait_timeout-blocks", format!("op #{}: blocking waitpid inside wait_timeout", i));
                                }
                                match st {
                                    None => {
                                        if tr < dl {
                                            return fail("timeout-early", format!("op #{}: 'still running' reported {} ns before the duration elapsed", i, dl - tr));
                                        }
                                        if tr > dl.saturating_add(slack) {
                                            return fail("timeout-late", format!("op #{}: 'still running' reported {} ns after the duration elapsed", i, tr - dl));
                                        }
                                        if let Some(x) = x {
                                            if x < tr - 100_000_000 - slack && learned.is_none() {
                                                return fail("exit-missed", format!("op #{}: child had exited {} ns before the call returned 'still running'", i, tr - x));
                                            }
                                        }
                                    }
                                    Some(_) => {
                                        if let Some(x) = x {
                                            let latest = x.max(t0).min(dl).saturating_add(100_000_000 + slack);
                                            if tr > latest && learned != Some(ExitStatus::Undetermined) {
                                                return fail("exit-reported-late", format!("op #{}: exit at {} reported at {} (call started {}, duration {} ns)", i, x - t0, tr - t0, 0, d));
                                            }
                                        }
                                    }
                                }
                                // bounded number of checks, sleeping in between
                                let bound = 14 + (d / 100_000_000).max(0) as usize;
                                if nwait > bound {
                                    return fail("too-many-checks", format!("op #{}: {} waitpid calls for a duration of {} ns (bound {})", i, nwait, d, bound));
                                }
                                if r.agg.busy_wait {
                                    return fail("busy-wait", format!("op #{}: two status checks without sleeping in between", i));
                                }
                                if r.agg.max_sleep_end > dl.saturating_add(slack) {
                                    return fail("oversleep", format!("op #{}: a sleep extends {} ns beyond the deadline", i, r.agg.max_sleep_end - dl));
                                }
                                // classification
                                let dclass = if d == i64::MAX { "unbounded" } else if d == 0 { "0" } else if d < 1_000_000 { "sub-ms" } else if d < 1_000_000_000 { "ms" } else if d <= 3_600_000_000_000 { "s-h" } else { "days" };
                                let place = match x {
                                    None => "never".to_string(),
                                    Some(x) if x <= t0 => "before-call".to_string(),
                                    Some(x) if x > dl.saturating_add(1000) => "after-deadline".to_string(),
                                    Some(x) if (x - dl).abs() <= 1000 => "at-deadline".to_string(),
                                    Some(x) => {
                                        let ms = (x - t0) / 1_000_000;
                                        let k = if ms < 1 { 0 } else { 64 - (ms as u64).leading_zeros() };
                                        format!("backoff-{}", k.min(8))
                                    }
                                };
                                let nontrivial = matches!(x, Some(x) if x > t0 && x <= dl) || d > 100_000_000;
                                if nontrivial {
                                    c11_class = Some(format!("d:{}|exit:{}|cost{}", dclass, place, cost));
                                }
                            }
                        }
                        _ => {}
                    }
                }
            }
            (HOp::Pid, OpResult::Pid(p)) => {
                if focus == Focus::C09 {
                    match (known_before, p) {
                        (None, Some(x)) if *x as i32 == o.pid => {}
                        (None, other) => return fail("pid-wrong", format!("op #{}: pid() = {:?} while running (pid {})", i, other, o.pid)),
                        (Some(_), None) => {}
                        (Some(s), Some(x)) => return fail("pid-after-final", format!("op #{}: pid() = Some({}) although status {:?} was reported", i, x, s)),
                    }
                }
                if known_before.is_some() {
                    methods_after.push("pid");
                }
            }
            (HOp::Terminate | HOp::Kill | HOp::SendSignal(_), OpResult::Unit(res)) => {
                let want_sig = match r.op {
                    HOp::Terminate => libc::SIGTERM,
                    HOp::Kill => libc::SIGKILL,
                    HOp::SendSignal(s) => s as i32,
                    _ => 0,
                };
                if known_before.is_some() {
                    sig_after += 1;
                    methods_after.push("signal");
                    if focus == Focus::C10 {
                        if nkill > 0 {
                            return fail("signal-after-status-known", format!("op #{}: {:?} sent a signal although the status was known", i, r.op));
                        }
                        if let Err(e) = res {
                            return fail("error-after-status-known", format!("op #{}: {:?} returned Err({}) instead of Ok", i, r.op, e));
                        }
                    }
                } else {
                    sig_before += 1;
                    if focus == Focus::C10 {
                        let kills: Vec<(i32, i32, bool)> = evs.iter().filter_map(|e| if let Ev::Kill { pid, sig, target_reaped, .. } = e { Some((*pid, *sig, *target_reaped)) } else { None }).collect();
                        if kills.len() != 1 {
                            return fail("signal-count", format!("op #{}: {:?} issued {} kill calls (expected exactly one)", i, r.op, kills.len()));
                        }
                        if kills[0].0 != o.pid {
                            return fail("stray-signal", format!("op #{}: {:?} signalled pid {} instead of {}", i, r.op, kills[0].0, o.pid));
                        }
                        if kills[0].1 != want_sig {
                            return fail("wrong-signal", format!("op #{}: {:?} sent signal {} instead of {}", i, r.op, kills[0].1, want_sig));
                        }
                        if !kills[0].2 {
                            if let Err(e) = res {
                                return fail("signal-error", format!("op #{}: {:?} returned Err({}) although kill succeeded", i, r.op, e));
                            }
                        }
                        if nwait > 0 {
                            // allowed (an implementation may check first), but then it must not signal a reaped pid
                        }
                    }
                }
            }
            (HOp::ExternalReap, OpResult::None) => ext_reap = true,
            (HOp::Drop | HOp::DropUnwinding, _) => {
                if focus == Focus::C10 && nkill > 0 {
                    return fail("drop-sends-signal", format!("op #{}: dropping the Popen sent a signal", i));
                }
                if focus == Focus::C09 && known_before.is_some() && (nwait > 0 || nkill > 0) {
                    return fail("syscall-after-final", format!("op #{}: drop made system calls although the status was known", i));
                }
            }
            _ => {}
        }
        let _ = nsleep;
    }
    // classification
    match focus {
        Focus::C09 => {
            let mut ms: Vec<&str> = methods_after.clone();
            ms.sort();
            ms.dedup();
            let nq = ms.iter().filter(|m| **m != "signal").count();
            if nq >= 2 || ext_reap || exit_between {
                let sc = match case.plan.exit_signal {
                    Some((_, true)) => "sig+core",
                    Some(_) => "sig",
                    None => "code",
                };
                rep.nontrivial(format!("{}|first:{}|after:{}|ext{}|mid{}", sc, first_report_method.clone().unwrap_or_else(|| "-".into()), ms.join("+"), ext_reap as u8, exit_between as u8));
            }
        }
        Focus::C10 => {
            if sig_before > 0 && sig_after > 0 {
                let kinds: Vec<String> = o.recs.iter().filter_map(|r| match r.op {
                    HOp::Terminate => Some("term".to_string()),
                    HOp::Kill => Some("kill".to_string()),
                    HOp::SendSignal(s) => Some(if s == 0 { "sig0".into() } else if s < 32 { "sig".into() } else { "rtsig".into() }),
                    _ => None,
                }).collect::<std::collections::BTreeSet<_>>().into_iter().collect();
                rep.nontrivial(format!("{}|before{}|after{}|ext{}|first:{}", kinds.join("+"), sig_before.min(3), sig_after.min(3), ext_reap as u8, first_report_method.clone().unwrap_or_else(|| "-".into())));
            }
        }
        Focus::C11 => {
            if let Some(c) = c11_class {
                rep.nontrivial(c);
            }
        }
    }
    Ok(())
}

// ---------------------------------------------------------------------------
// Generators
// ---------------------------------------------------------------------------

fn delay_strategy() -> impl Strategy<Value = u64> {
    prop_oneof![Just(0u64), Just(1_000u64), 1u64..5_000_000, Just(150_000_000u64)]
}

fn reaction_strategy() -> impl Strategy<Value = Reaction> {
    prop_oneof![
        4 => delay_strategy().prop_map(Reaction::Die),
        2 => Just(Reaction::Ignore),
        1 => (any::<u8>(), delay_strategy()).prop_map(|(c, d)| Reaction::Exit(c, d)),
    ]
}

fn dur_strategy(thorough: bool) -> BoxedStrategy<u64> {
    let base = prop_oneof![
        3 => Just(0u64),
        2 => 1u64..999_000,
        4 => 1_000_000u64..999_000_000,
        2 => 1_000_000_000u64..30_000_000_000,
        1 => 30_000_000_000u64..3_600_000_000_000,
        // Duration::MAX: "wait however long it takes"
        1 => Just(u64::MAX),
    ];
    if thorough {
        // a never-exiting child with a 25-day wait is 21.6 M loop iterations: keep such cases rare
        prop_oneof![20_000 => base, 2 => Just(86_400_000_000_000u64), 1 => (0u64..2_000_000_000).prop_map(|k| 25 * 86_400_000_000_000 - 1_000_000_000 + k)].boxed()
    } else {
        base.boxed()
    }
}

fn plan_strategy() -> impl Strategy<Value = ProcPlan> {
    let exit_after = prop_oneof![
        2 => Just(None),
        2 => Just(Some(0u64)),
        3 => (0u64..200_000_000).prop_map(Some),
        2 => (0u32..9, 0u64..2000).prop_map(|(k, j)| Some((1u64 << k) * 1_000_000 + j * 1000)),
        2 => (0u64..20_000_000_000).prop_map(Some),
        1 => (0u64..4_000_000_000_000).prop_map(Some),
    ];
    let sig = prop_oneof![3 => Just(None), 2 => (1u8..65, any::<bool>()).prop_map(Some)];
    (exit_after, any::<u8>(), sig, reaction_strategy(), reaction_strategy(), delay_strategy(), prop_oneof![Just(0u32), Just(1_000u32), Just(50_000u32)], prop_oneof![3 => Just(false), 1 => Just(true)], prop_oneof![6 => Just(0u8), 1 => Just(1u8), 1 => 1u8..4]).prop_map(|(exit_after, exit_code, exit_signal, on_term, on_other, kill_delay, cost_ns, setpgid, eintr_waits)| ProcPlan { exit_after, exit_code, exit_signal, on_term, on_other, kill_delay, cost_ns, setpgid, eintr_waits })
}

fn op_strategy(focus: Focus, thorough: bool) -> BoxedStrategy<HOp> {
    let adv = prop_oneof![1u64..2_000_000, 1_000_000u64..300_000_000, 1_000_000_000u64..20_000_000_000, Just(4_000_000_000_000u64)].prop_map(HOp::Advance);
    let sig = prop_oneof![Just(libc::SIGUSR1 as u8), Just(libc::SIGINT as u8), Just(libc::SIGHUP as u8), Just(0u8), 1u8..65].prop_map(HOp::SendSignal);
    let wt = dur_strategy(thorough && focus == Focus::C11).prop_map(HOp::WaitTimeout);
    match focus {
        Focus::C09 => prop_oneof![
            5 => Just(HOp::Poll), 3 => Just(HOp::Wait), 3 => wt, 3 => Just(HOp::Pid), 3 => Just(HOp::ExitStatus),
            1 => Just(HOp::Terminate), 1 => Just(HOp::Kill), 1 => sig, 1 => Just(HOp::Detach), 5 => adv, 2 => Just(HOp::ExternalReap)
        ]
        .boxed(),
        Focus::C10 => prop_oneof![
            3 => Just(HOp::Poll), 2 => Just(HOp::Wait), 2 => wt, 1 => Just(HOp::Pid), 1 => Just(HOp::ExitStatus),
            4 => Just(HOp::Terminate), 4 => Just(HOp::Kill), 5 => sig, 1 => Just(HOp::Detach), 5 => adv, 2 => Just(HOp::ExternalReap)
        ]
        .boxed(),
        Focus::C11 => prop_oneof![4 => Just(HOp::Poll), 8 => wt, 1 => Just(HOp::Terminate), 4 => adv, 1 => Just(HOp::ExternalReap), 1 => Just(HOp::Wait)].boxed(),
    }
}

pub fn case_strategy(focus: Focus, thorough: bool) -> BoxedStrategy<ProcCase> {
    let general = (plan_strategy(), prop::collection::vec(op_strategy(focus, thorough), 0..30), 0u8..6).prop_map(|(plan, mut ops, drop_last)| {
        if drop_last >= 4 {
            ops.push(HOp::Drop);
        } else if drop_last == 3 {
            ops.push(HOp::DropUnwinding);
        }
        ProcCase { plan, ops }
    });
    if focus == Focus::C11 {
        // targeted: (duration, exit placement)
        let targeted = (dur_strategy(thorough), 0u8..7, 0u32..9, 0u64..1_000_000, prop_oneof![Just(0u64), 1u64..50_000_000], plan_strategy()).prop_map(|(d, place, k, j, adv, mut plan)| {
            let exit = match place {
                // an unbounded wait: the exit is the only thing that ends it
                0 | 5 if d == u64::MAX => Some(adv + k as u64 * 100_000_000 + j),
                1 if d == u64::MAX => Some(adv / 2),
                2 | 3 if d == u64::MAX => Some(adv + (1u64 << k) * 1_000_000 + j % 1000),
                4 if d == u64::MAX => Some(adv + j * 4_000_000),
                _ if d == u64::MAX => Some(adv + j * 977),
                0 => None,
                1 => Some(adv / 2),                                             // before the call
                2 => Some(adv + ((1u64 << k) * 1_000_000).min(d.saturating_sub(1)) + j % 1000), // inside a back-off interval
                3 => Some(adv + d.saturating_sub(1000 - j % 1000)),              // just before the deadline
                4 => Some(adv + d + j % 1000 + 1),                               // just after the deadline
                5 => Some(adv + d + 200_000_000 + j),                            // well after
                _ => Some(adv + (j * 977) % d.max(1)),                            // anywhere inside
            };
            plan.exit_after = exit;
            let mut ops = vec![];
            if adv > 0 {
                ops.push(HOp::Advance(adv));
            }
            ops.push(HOp::WaitTimeout(d));
            ops.push(HOp::Poll);
            ProcCase { plan, ops }
        });
        prop_oneof![2 => general, 3 => targeted].boxed()
    } else {
        general.boxed()
    }
}

fn run_and_judge(focus: Focus, case: &ProcCase, rep: &mut CaseReport) -> CaseResult {
    let o = run_proc(case);
    rep.count("syscalls_logged", o.log.len() as u64);
    judge(focus, case, &o, rep)
}

/// Real tier of C09: real children for exit codes and fatal signals, and a
/// child reaped behind the library's back.  Anchors the simulator's status
/// words to the kernel's.
#[derive(Clone, Debug, Serialize, Deserialize)]
pub enum RealCase {
    ExitCode(u8),
    Signal(u8),
    ExternalReap(u8),
}

fn real_case(case: &RealCase) -> CaseResult {
    use crate::real::*;
    let helper = vchild_path();
    let fail = |sig: &str, msg: String| Err(Fail::new(format!("C09:real:{}", sig), format!("{} ({:?})", msg, case)));
    let (argv, want): (Vec<String>, ExitStatus) = match case {
        RealCase::ExitCode(c) => (vec!["exit".into(), c.to_string()], ExitStatus::Exited(*c as u32)),
        RealCase::Signal(s) => (vec!["selfkill".into(), s.to_string()], ExitStatus::Signaled(*s)),
        RealCase::ExternalReap(c) => (vec!["exit".into(), c.to_string()], ExitStatus::Undetermined),
    };
    let mut full: Vec<std::ffi::OsString> = vec![helper.into_os_string()];
    full.extend(argv.into_iter().map(Into::into));
    let mut p = match Popen::create(&full, PopenConfig::default()) {
        Ok(p) => p,
        Err(e) => return fail("spawn-error", e.to_string()),
    };
    let pid = p.pid().unwrap_or(0) as i32;
    if let RealCase::ExternalReap(_) = case {
        let mut st = 0;
        let r = unsafe { ip::raw_waitpid(pid, &mut st, 0) };
        if r != pid {
            return fail("harness", format!("external waitpid returned {}", r));
        }
    }
    // first report through one of the three methods (by case parity), then every other query
    let first = match pid % 3 {
        0 => p.wait().map_err(|e| e.to_string()),
        1 => {
            let mut r = Ok(None);
            for _ in 0..2000 {
                r = p.wait_timeout(Duration::from_millis(20)).map_err(|e| e.to_string());
                if !matches!(r, Ok(None)) {
                    break;
                }
            }
            r.map(|o| o.unwrap_or(ExitStatus::Other(-1)))
        }
        _ => {
            let mut got = None;
            for _ in 0..20000 {
                got = p.poll();
                if got.is_some() {
                    break;
                }
                ip::real_sleep_ms(1);
            }
            Ok(got.unwrap_or(ExitStatus::Other(-1)))
        }
    };
    let first = match first {
        Ok(s) => s,
        Err(e) => return fail("query-error", e),
    };
    if first != want {
        return fail("wrong-status", format!("reported {:?}, the child's real termination cause is {:?}", first, want));
    }
    for (name, got) in [("poll", p.poll()), ("wait", p.wait().ok()), ("wait_timeout", p.wait_timeout(Duration::from_millis(5)).ok().flatten()), ("exit_status", p.exit_status())] {
        if got != Some(want) {
            return fail("status-changed", format!("{} afterwards reports {:?}, first report was {:?}", name, got, want));
        }
    }
    if p.pid().is_some() {
        return fail("pid-after-final", format!("pid() = {:?} after the status was reported", p.pid()));
    }
    Ok(())
}

fn real_tier_c09(ctx: &Ctx) {
    let mut cases: Vec<RealCase> = vec![];
    let thorough = ctx.tier == Tier::Thorough;
    for c in 0..=255u8 {
        if thorough || [0, 1, 2, 126, 127, 128, 129, 254, 255].contains(&c) || (c as u64 + ctx.seed) % 8 == 0 {
            cases.push(RealCase::ExitCode(c));
        }
    }
    for s in 1..=64u8 {
        // default action terminate / core (not CHLD, CONT, STOP, TSTP, TTIN, TTOU, URG, WINCH; 32/33 are reserved by libc)
        if [17, 18, 19, 20, 21, 22, 23, 28, 32, 33].contains(&s) {
            continue;
        }
        if thorough || s <= 15 || (s as u64 + ctx.seed) % 4 == 0 {
            cases.push(RealCase::Signal(s));
        }
    }
    for c in [0u8, 3, 255] {
        cases.push(RealCase::ExternalReap(c));
    }
    for (i, c) in cases.iter().enumerate() {
        if i % ctx.nworkers != ctx.worker {
            continue;
        }
        ctx.run_case("real", c, |rep| {
            rep.nontrivial(match c {
                RealCase::ExitCode(_) => "real|exit-code".to_string(),
                RealCase::Signal(s) => format!("real|signal{}", if *s >= 34 { "-rt" } else { "" }),
                RealCase::ExternalReap(_) => "real|external-reap".to_string(),
            });
            real_case(c)
        });
        crate::real::reap_all();
    }
}

fn worker_for(focus: Focus, ctx: &Ctx) {
    quiet_panics();
    if focus == Focus::C09 {
        real_tier_c09(ctx);
    }
    let thorough = ctx.tier == Tier::Thorough;
    let (name, n) = match focus {
        Focus::C09 => ("c09-simproc", ctx.tier.pick(60_000, 1_000_000)),
        Focus::C10 => ("c10-simproc", ctx.tier.pick(60_000, 1_000_000)),
        Focus::C11 => ("c11-simproc", ctx.tier.pick(40_000, 300_000)),
    };
    ctx.explore("simproc", name, case_strategy(focus, thorough), n, 4000, |c, rep| run_and_judge(focus, c, rep));
}

fn replay_for(focus: Focus, _ctx: &Ctx, engine: &str, case: &Value) -> CaseResult {
    quiet_panics();
    if engine == "real" {
        let c: RealCase = serde_json::from_value(case.clone()).map_err(|e| Fail::new("bad-replay-file", e.to_string()))?;
        return real_case(&c);
    }
    let c: ProcCase = serde_json::from_value(case.clone()).map_err(|e| Fail::new("bad-replay-file", e.to_string()))?;
    let o = run_proc(&c);
    println!("{}", describe(&c, &o));
    let mut rep = CaseReport::default();
    judge(focus, &c, &o, &mut rep)
}

const ASSUME: &[&str] = &[
    "fork/waitpid/kill/clock_gettime/nanosleep are served by a simulated process table with a virtual clock (fake pid, no process behind it); a Popen in state Running is obtained through the crate's own start-up path because end-of-file on its status pipe means success",
    "status words follow the Linux encoding (exit code << 8, signal | 0x80 for core); real children anchor this in the real tier",
    "histories up to 30 operations; wait()/drop are only issued when they can return (child mortal, status known, or detached)",
];

pub static C09: PropDef = PropDef {
    id: "C09",
    level: "exploration",
    rule: "proptest generates a process plan (exit instant or never, any exit code 0..255 or signal 1..64 with/without core, reactions to signals) and a history of up to 30 operations from poll/wait/wait_timeout/pid/exit_status/terminate/kill/send_signal/detach/advance-time/external-reap/drop, run against the real Popen on the simulated process table. Oracle: reference model fed by the simulator's log: a status is reported only if a wait call observed the child's end, equals the decoded ground truth (Undetermined iff reaped externally), never changes afterwards, pid() is None from then on, and no further waitpid/kill is issued. Non-trivial = at least two different query methods after the first report, or an external reap, or the exit falls between two queries. Plans may make the first 1-3 blocking waits on a live child fail with EINTR (an error is accepted then, a status is not) and the simulated process table has job control (SIGSTOP/TSTP/TTIN/TTOU stop the child and put its exit off, SIGCONT resumes it, stop/continue reports go only to WUNTRACED/WCONTINUED callers and are not terminations).",
    assumptions: ASSUME,
    engines: "simproc",
    workers: |_| 16,
    worker: |ctx| worker_for(Focus::C09, ctx),
    replay: |c, e, v| replay_for(Focus::C09, c, e, v),
    exhaustive: false,
};
pub static C10: PropDef = PropDef {
    id: "C10",
    level: "exploration",
    rule: "same histories weighted toward terminate/kill/send_signal (every signal number 0..64). Oracle over the simulator's kill log: each signal call made while the status is unknown issues exactly one kill(pid, SIGTERM|SIGKILL|s) with the child's pid; each one made after the status became known (through any method, or Undetermined) issues none and returns Ok; no kill to any other pid ever; drop sends nothing. Non-trivial = at least one signal call before and one after the point where the status became known. The last operation may be a drop of the Popen by stack unwinding (its owner panics), which must not signal either.",
    assumptions: ASSUME,
    engines: "simproc",
    workers: |_| 16,
    worker: |ctx| worker_for(Focus::C10, ctx),
    replay: |c, e, v| replay_for(Focus::C10, c, e, v),
    exhaustive: false,
};
pub static C11: PropDef = PropDef {
    id: "C11",
    level: "exploration",
    rule: "durations d from {0, sub-ms, ms, s, up to 1 h, Duration::MAX (an unbounded wait, generated only for children that do exit); thorough: 1 day, 25 days +- 1 s} crossed with exit instants placed before the call, inside each back-off interval, within 1 us of the deadline on either side, after it, never; plus general histories. Virtual clock, exact: poll() makes at most one non-blocking waitpid and never sleeps; wait_timeout with known status makes no system call; 'still running' is returned within [T0+d, T0+d+1ms+costs]; a status is returned no later than min(exit, deadline)+100ms+slack; an exit more than 100 ms old is never missed; at most 14 + d/100ms checks, each pair separated by a positive sleep, no sleep beyond the deadline. Non-trivial = the exit falls inside the waiting window or d > 100 ms.",
    assumptions: ASSUME,
    engines: "simproc",
    workers: |_| 16,
    worker: |ctx| worker_for(Focus::C11, ctx),
    replay: |c, e, v| replay_for(Focus::C11, c, e, v),
    exhaustive: false,
};
