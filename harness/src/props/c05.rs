//! C05: every redirection combination wires the child's streams to the
//! requested objects (exhaustive over the 125 configurations).
use crate::interpose as ip;
use crate::props::c0104::quiet_panics;
use crate::real::*;
use crate::runner::*;
use proptest::prelude::*;
use serde::{Deserialize, Serialize};
use serde_json::Value;
use std::ffi::OsStr;
use std::fs::File;
use std::io::{Read, Seek, SeekFrom};
use std::os::unix::io::{AsRawFd, FromRawFd};
use std::rc::Rc;
use std::sync::atomic::Ordering::SeqCst;
use subprocess::{Popen, PopenConfig, PopenError, Redirection};

#[derive(Clone, Copy, Debug, PartialEq, Serialize, Deserialize)]
pub enum RK {
    None,
    Pipe,
    File,
    RcFile,
    Merge,
}
#[derive(Clone, Copy, Debug, PartialEq, Serialize, Deserialize)]
pub enum FK {
    Regular,
    DevNull,
    /// an end of a pipe made by the harness
    PipeEnd,
    /// one regular file for all streams of this kind, but opened separately for
    /// each: same path, same inode, different open file descriptions
    SamePath,
}

#[derive(Clone, Debug, Serialize, Deserialize)]
pub struct WireCase {
    pub cfg: [RK; 3],
    pub kinds: [FK; 3],
    /// streams configured as RcFile share one Rc<File> (regular file)
    pub share_rc: bool,
    /// streams configured as File get dups of one open file (regular file)
    pub share_file: bool,
    pub repeats: u8,
    pub fresh_thread: bool,
    /// the parent's own fds 0..2 in this mask are CLOSED during the spawn (a
    /// daemon-like parent); only applied to streams that are redirected to a
    /// pipe or file.  Bit 3: the files handed over in the configuration were
    /// themselves opened in that state, i.e. they sit on the freed low numbers
    #[serde(default)]
    pub closed_std: u8,
}

/// expected object behind a child descriptor
#[derive(Clone, Copy, Debug, PartialEq)]
enum Obj {
    Inherit(usize),
    LibPipe(usize),
    Given(usize),
}

#[derive(Debug, Default)]
struct Obs {
    err: Option<(String, bool)>,
    forks: u32,
    fd_diff: Vec<String>,
    has_handle: [bool; 3],
    pipe_ino: [u64; 3],
    report: Option<Report>,
    /// data read from the parent side of library pipes / harness pipes, per child fd
    sink_data: [Vec<u8>; 3],
    /// (dev, ino) of the object given for stream i
    given_ident: [(u64, u64); 3],
    /// offset of the given description after the child exited (-1 = not seekable / not given)
    given_offset: [i64; 3],
    given_content: [Vec<u8>; 3],
    pid: u32,
    std_idents_after: [(u64, u64, i32, i32); 3],
    exit: String,
    /// offset and content of the harness's own fds 0-2 right after this spawn
    inh_offset: [i64; 3],
    inh_content: [Vec<u8>; 3],
}

fn std_ident(fd: i32) -> (u64, u64, i32, i32) {
    let (d, i) = fd_ident(fd);
    unsafe { (d, i, libc::fcntl(fd, libc::F_GETFL), libc::fcntl(fd, libc::F_GETFD)) }
}

fn spawn_once(case: &WireCase, helper: &std::path::Path, prefix: &std::path::Path, dir: &std::path::Path, serial: u32) -> Obs {
    let mut obs = Obs::default();
    // build the objects
    let mut keep: [Option<File>; 3] = [None, None, None]; // harness-side dup of the given description
    let mut sinks: [Option<File>; 3] = [None, None, None]; // harness-side other end of a harness pipe
    let mut shared_rc: Option<Rc<File>> = None;
    let mut shared_file: Option<File> = None;
    let open_regular = |name: String| -> File {
        let p = dir.join(name);
        let f = std::fs::OpenOptions::new().create(true).truncate(true).read(true).write(true).open(&p).unwrap();
        use std::io::Write;
        (&f).write_all(&vec![b'.'; 3000]).unwrap();
        (&f).seek(SeekFrom::Start(0)).unwrap();
        f
    };
    let mut reds: Vec<Redirection> = vec![];
    for i in 0..3 {
        let r = match case.cfg[i] {
            RK::None => Redirection::None,
            RK::Pipe => Redirection::Pipe,
            RK::Merge => Redirection::Merge,
            RK::File | RK::RcFile => {
                let is_rc = case.cfg[i] == RK::RcFile;
                let share = if is_rc { case.share_rc } else { case.share_file };
                let f: File = if share {
                    // one regular file shared by all streams of this kind
                    if is_rc {
                        if shared_rc.is_none() {
                            shared_rc = Some(Rc::new(open_regular(format!("rc.{}", serial))));
                        }
                        keep[i] = Some(shared_rc.as_ref().unwrap().try_clone().unwrap());
                        obs.given_ident[i] = fd_ident(shared_rc.as_ref().unwrap().as_raw_fd());
                        reds.push(Redirection::RcFile(Rc::clone(shared_rc.as_ref().unwrap())));
                        continue;
                    } else {
                        if shared_file.is_none() {
                            shared_file = Some(open_regular(format!("sf.{}", serial)));
                        }
                        shared_file.as_ref().unwrap().try_clone().unwrap()
                    }
                } else {
                    match case.kinds[i] {
                        FK::Regular => open_regular(format!("f{}.{}", i, serial)),
                        FK::SamePath => {
                            let p = dir.join(format!("same.{}", serial));
                            if !p.exists() {
                                drop(open_regular(format!("same.{}", serial)));
                            }
                            std::fs::OpenOptions::new().read(true).write(true).open(&p).unwrap()
                        }
                        FK::DevNull => std::fs::OpenOptions::new().read(true).write(true).open("/dev/null").unwrap(),
                        FK::PipeEnd => {
                            let mut fds = [0i32; 2];
                            unsafe { ip::raw_pipe2(fds.as_mut_ptr(), libc::O_CLOEXEC) };
                            let (r, w) = unsafe { (File::from_raw_fd(fds[0]), File::from_raw_fd(fds[1])) };
                            if i == 0 {
                                // child reads: give the read end, write a token and close
                                use std::io::Write;
                                let mut w = w;
                                let _ = w.write_all(b"token-for-stdin");
                                drop(w);
                                r
                            } else {
                                sinks[i] = Some(r);
                                w
                            }
                        }
                    }
                };
                keep[i] = Some(f.try_clone().unwrap());
                obs.given_ident[i] = fd_ident(f.as_raw_fd());
                if is_rc {
                    Redirection::RcFile(Rc::new(f))
                } else {
                    Redirection::File(f)
                }
            }
        };
        reds.push(r);
    }
    drop(shared_file);
    let cfg_fds: Vec<i32> = reds
        .iter()
        .filter_map(|r| match r {
            Redirection::File(f) => Some(f.as_raw_fd()),
            Redirection::RcFile(f) => Some(f.as_raw_fd()),
            _ => None,
        })
        .collect();
    let mut it = reds.into_iter();
    let cfg = PopenConfig { stdin: it.next().unwrap(), stdout: it.next().unwrap(), stderr: it.next().unwrap(), ..Default::default() };
    let before = fd_snapshot();
    ip::counters_reset();
    let mut mask = 0u8;
    for i in 0..3 {
        if case.closed_std & (1 << i) != 0 && matches!(case.cfg[i], RK::Pipe | RK::File | RK::RcFile) {
            mask |= 1 << i;
        }
    }
    ip::COUNTING.store(true, SeqCst);
    // the closed descriptors stay closed for as long as the Popen's handles
    // live: the library may hand out handles on exactly those numbers
    let mut closed_guard = Some(CloseGuard::new(mask));
    let mut cfg = cfg;
    if case.closed_std & 8 != 0 && mask != 0 {
        // re-home the caller's files on the lowest free numbers (same open file description)
        let lower = |r: Redirection| -> Redirection {
            match r {
                Redirection::File(f) => {
                    let n = unsafe { libc::fcntl(f.as_raw_fd(), libc::F_DUPFD_CLOEXEC, 0) };
                    if (0..=2).contains(&n) {
                        Redirection::File(unsafe { File::from_raw_fd(n) })
                    } else {
                        if n >= 0 {
                            unsafe { ip::raw_close(n) };
                        }
                        Redirection::File(f)
                    }
                }
                other => other,
            }
        };
        cfg.stdin = lower(std::mem::replace(&mut cfg.stdin, Redirection::None));
        cfg.stdout = lower(std::mem::replace(&mut cfg.stdout, Redirection::None));
        cfg.stderr = lower(std::mem::replace(&mut cfg.stderr, Redirection::None));
    }
    let res = Popen::create(&[helper.as_os_str()], cfg);
    ip::COUNTING.store(false, SeqCst);
    obs.forks = ip::PARENT_CALLS[ip::K_FORK].load(SeqCst);
    drop(shared_rc);
    match res {
        Err(e) => {
            obs.err = Some((e.to_string(), matches!(e, PopenError::LogicError(_))));
            closed_guard.take();
            let after = fd_snapshot();
            let mut b2 = before.clone();
            for fd in &cfg_fds {
                b2.remove(fd);
            }
            obs.fd_diff = fd_diff(&b2, &after, false);
        }
        Ok(mut p) => {
            obs.pid = p.pid().unwrap_or(0);
            obs.has_handle = [p.stdin.is_some(), p.stdout.is_some(), p.stderr.is_some()];
            if let Some(f) = &p.stdin {
                obs.pipe_ino[0] = fd_ident(f.as_raw_fd()).1;
            }
            if let Some(f) = &p.stdout {
                obs.pipe_ino[1] = fd_ident(f.as_raw_fd()).1;
            }
            if let Some(f) = &p.stderr {
                obs.pipe_ino[2] = fd_ident(f.as_raw_fd()).1;
            }
            drop(p.stdin.take());
            // the child writes only two short tags: reading after wait cannot block it
            let st = p.wait();
            obs.exit = format!("{:?}", st);
            if let Some(mut o) = p.stdout.take() {
                let _ = o.read_to_end(&mut obs.sink_data[1]);
            }
            if let Some(mut o) = p.stderr.take() {
                let _ = o.read_to_end(&mut obs.sink_data[2]);
            }
            obs.report = read_report(prefix, obs.pid, 5000);
            drop(p);
        }
    }
    drop(closed_guard);
    for i in 1..3 {
        if let Some(mut s) = sinks[i].take() {
            // the write end given to the library is closed by now (config consumed, child exited)
            unsafe {
                let fl = libc::fcntl(s.as_raw_fd(), libc::F_GETFL);
                libc::fcntl(s.as_raw_fd(), libc::F_SETFL, fl | libc::O_NONBLOCK);
            }
            let _ = s.read_to_end(&mut obs.sink_data[i]);
        }
    }
    for i in 0..3 {
        obs.given_offset[i] = -1;
        if let Some(k) = keep[i].as_mut() {
            let off = unsafe { libc::lseek(k.as_raw_fd(), 0, libc::SEEK_CUR) };
            let mut st: libc::stat = unsafe { std::mem::zeroed() };
            unsafe { libc::fstat(k.as_raw_fd(), &mut st) };
            if st.st_mode & libc::S_IFMT == libc::S_IFREG {
                obs.given_offset[i] = off;
                let mut c = vec![];
                let _ = k.seek(SeekFrom::Start(0));
                let _ = k.read_to_end(&mut c);
                obs.given_content[i] = c;
            }
        }
    }
    obs.std_idents_after = [std_ident(0), std_ident(1), std_ident(2)];
    for n in 0..3 {
        unsafe {
            obs.inh_offset[n] = libc::lseek(n as i32, 0, libc::SEEK_CUR);
            let mut buf = vec![0u8; 8192];
            let k = libc::pread(n as i32, buf.as_mut_ptr() as *mut _, buf.len(), 0);
            buf.truncate(if k > 0 { k as usize } else { 0 });
            obs.inh_content[n] = buf;
        }
    }
    obs
}

fn expected_objs(case: &WireCase) -> Option<[Obj; 3]> {
    if case.cfg[0] == RK::Merge || (case.cfg[1] == RK::Merge && case.cfg[2] == RK::Merge) {
        return None;
    }
    let base = |i: usize| -> Obj {
        match case.cfg[i] {
            RK::None | RK::Merge => Obj::Inherit(i),
            RK::Pipe => Obj::LibPipe(i),
            RK::File => Obj::Given(if case.share_file { 10 } else { i }),
            RK::RcFile => Obj::Given(if case.share_rc { 20 } else { i }),
        }
    };
    let mut o = [base(0), base(1), base(2)];
    if case.cfg[1] == RK::Merge {
        o[1] = o[2];
    }
    if case.cfg[2] == RK::Merge {
        o[2] = o[1];
    }
    Some(o)
}

fn judge_one(case: &WireCase, obs: &Obs, std_before: &[(u64, u64, i32, i32); 3], _inh_files: &[File; 3], round: u32) -> CaseResult {
    let fail = |sig: &str, msg: String| Err(Fail::new(format!("C05:{}", sig), format!("{} (spawn #{})\ncase={:?}", msg, round, case)));
    let objs = expected_objs(case);
    // the parent's own standard streams are untouched
    for i in 0..3 {
        if obs.std_idents_after[i] != std_before[i] {
            return fail("parent-stream-altered", format!("the harness's fd {} changed: {:?} -> {:?}", i, std_before[i], obs.std_idents_after[i]));
        }
    }
    let objs = match objs {
        None => {
            return match &obs.err {
                Some((_, true)) => {
                    if obs.forks != 0 {
                        return fail("invalid-config-forked", format!("{} fork calls for a configuration documented as invalid", obs.forks));
                    }
                    if !obs.fd_diff.is_empty() {
                        return fail("invalid-config-fd-leak", obs.fd_diff.join("; "));
                    }
                    Ok(())
                }
                Some((m, false)) => fail("invalid-config-wrong-error", format!("expected a logic error, got {}", m)),
                None => fail(if case.cfg[0] == RK::Merge { "merge-stdin-accepted" } else { "merge-both-outputs-accepted" }, format!("configuration {:?} is documented as invalid (Err(LogicError)) but a process was started (pid {})", case.cfg, obs.pid)),
            };
        }
        Some(o) => o,
    };
    if let Some((m, _)) = &obs.err {
        return fail("valid-config-refused", m.clone());
    }
    let rep = match &obs.report {
        Some(r) => r,
        None => return fail("no-report", format!("child {} left no report ({})", obs.pid, obs.exit)),
    };
    // handles exposed iff piped
    for i in 0..3 {
        if obs.has_handle[i] != (case.cfg[i] == RK::Pipe) {
            return fail("handle-presence", format!("stream {}: configured {:?}, Popen exposes a handle: {}", i, case.cfg[i], obs.has_handle[i]));
        }
    }
    // identity of each child descriptor
    for i in 0..3 {
        let fi = &rep.fds[i];
        if !fi.open {
            return fail("child-stream-closed", format!("child fd {} is not open", i));
        }
        let id = (fi.dev, fi.ino);
        match objs[i] {
            Obj::Inherit(n) => {
                if id != (std_before[n].0, std_before[n].1) {
                    return fail(if case.cfg[i] == RK::Merge { "merge-wrong-target" } else { "inherit-wrong-object" }, format!("child fd {} is {:?}, expected the harness's fd {} {:?}", i, id, n, (std_before[n].0, std_before[n].1)));
                }
            }
            Obj::LibPipe(j) => {
                if fi.fmt != libc::S_IFIFO || fi.ino != obs.pipe_ino[j] {
                    return fail(if case.cfg[i] == RK::Merge { "merge-wrong-target" } else { "pipe-wrong-object" }, format!("child fd {} is ino {} fmt {:o}, expected the peer of the Popen's pipe ino {}", i, fi.ino, fi.fmt, obs.pipe_ino[j]));
                }
                let want_acc = if j == 0 { libc::O_RDONLY } else { libc::O_WRONLY };
                if fi.acc != want_acc {
                    return fail("pipe-wrong-direction", format!("child fd {} access mode {}, expected {}", i, fi.acc, want_acc));
                }
            }
            Obj::Given(_) => {
                let src = (0..3).find(|k| matches!(case.cfg[*k], RK::File | RK::RcFile) && expected_objs(case).unwrap()[*k] == objs[i]).unwrap();
                if id != obs.given_ident[src] {
                    return fail(if case.cfg[i] == RK::Merge { "merge-wrong-target" } else { "file-wrong-object" }, format!("child fd {} is {:?}, expected the file that was passed {:?}", i, id, obs.given_ident[src]));
                }
            }
        }
    }
    // same open file description exactly where expected
    for (a, b, got) in [(0, 1, rep.same01), (0, 2, rep.same02), (1, 2, rep.same12)] {
        let want = objs[a] == objs[b];
        if got != want {
            return fail(if want { "not-the-same-open-file" } else { "unexpected-sharing" }, format!("child fds {} and {} share one open file description: {}, expected {}", a, b, got, want));
        }
    }
    // effects of the child's seeks and writes, per description
    let t1 = format!("<TAG1:{}>", obs.pid).into_bytes();
    let t2 = format!("<TAG2:{}>", obs.pid).into_bytes();
    // simulate: for fd in 0..3 seek(1000+100*fd) on seekable; write t1 to fd1; write t2 to fd2
    let seekable = |o: Obj| -> bool {
        match o {
            Obj::Inherit(_) => true,
            Obj::LibPipe(_) => false,
            Obj::Given(_) => {
                let src = (0..3).find(|k| matches!(case.cfg[*k], RK::File | RK::RcFile) && expected_objs(case).unwrap()[*k] == o).unwrap();
                obs.given_offset[src] >= 0
            }
        }
    };
    let mut offs: Vec<(Obj, i64)> = vec![];
    let mut tagpos: [Option<i64>; 3] = [None; 3];
    for fd in 0..3usize {
        if seekable(objs[fd]) {
            offs.retain(|(o, _)| *o != objs[fd]);
            offs.push((objs[fd], 1000 + 100 * fd as i64));
        }
    }
    for (fd, t) in [(1usize, &t1), (2usize, &t2)] {
        if let Some(e) = offs.iter_mut().find(|(o, _)| *o == objs[fd]) {
            tagpos[fd] = Some(e.1);
            e.1 += t.len() as i64;
        }
    }
    for (o, want) in &offs {
        let (got, what) = match o {
            Obj::Inherit(n) => (obs.inh_offset[*n], format!("the harness's own fd {}", n)),
            Obj::Given(_) => {
                let src = (0..3).find(|k| matches!(case.cfg[*k], RK::File | RK::RcFile) && expected_objs(case).unwrap()[*k] == *o).unwrap();
                (obs.given_offset[src], format!("the file passed for stream {}", src))
            }
            _ => continue,
        };
        if got != *want {
            return fail("not-the-very-open-file", format!("offset of {} is {} after the child ran, expected {} (the child moves the offset of the descriptors it was given; a re-opened or different file does not follow)", what, got, want));
        }
    }
    // tags arrive at the right sink
    for (fd, t) in [(1usize, &t1), (2usize, &t2)] {
        match objs[fd] {
            Obj::LibPipe(j) => {
                let d = &obs.sink_data[j];
                if !d.windows(t.len()).any(|w| w == &t[..]) {
                    return fail("tag-missing-on-pipe", format!("tag written to child fd {} did not arrive on the Popen's pipe for stream {} (got {:?})", fd, j, String::from_utf8_lossy(d)));
                }
            }
            Obj::Given(_) => {
                let src = (0..3).find(|k| matches!(case.cfg[*k], RK::File | RK::RcFile) && expected_objs(case).unwrap()[*k] == objs[fd]).unwrap();
                if let Some(pos) = tagpos[fd] {
                    let c = &obs.given_content[src];
                    let pos = pos as usize;
                    if c.len() < pos + t.len() || &c[pos..pos + t.len()] != &t[..] {
                        return fail("tag-missing-in-file", format!("tag of child fd {} not found at offset {} of the file passed for stream {}", fd, pos, src));
                    }
                } else if case.kinds[src] == FK::PipeEnd {
                    let d = &obs.sink_data[src];
                    if !d.windows(t.len()).any(|w| w == &t[..]) {
                        return fail("tag-missing-on-given-pipe", format!("tag of child fd {} did not arrive on the harness pipe passed for stream {}", fd, src));
                    }
                }
            }
            Obj::Inherit(n) => {
                if let Some(pos) = tagpos[fd] {
                    let c = &obs.inh_content[n];
                    let pos = pos as usize;
                    if c.len() < pos + t.len() || &c[pos..pos + t.len()] != &t[..] {
                        return fail("tag-missing-in-inherited", format!("tag of child fd {} not found at offset {} of the harness's stream {}", fd, pos, n));
                    }
                }
            }
        }
    }
    Ok(())
}

pub fn check_case(ctx: &Ctx, case: &WireCase, rep: &mut CaseReport) -> CaseResult {
    let sc = Scratch::new(&ctx.scratch, "c05");
    let bindir = sc.subdir("bin");
    let helper = link_vchild(&bindir, OsStr::new("wired"));
    let prefix = sc.path("rep");
    set_mode(&bindir, "report", &[&prefix.to_string_lossy(), "1", ""]);
    reap_all();
    if case.cfg != [RK::None, RK::None, RK::None] {
        let share = format!("{}{}", if case.share_rc && case.cfg.iter().filter(|c| **c == RK::RcFile).count() >= 2 { "rc-shared" } else { "" }, if case.share_file && case.cfg.iter().filter(|c| **c == RK::File).count() >= 2 { "file-dup-shared" } else { "" });
        rep.nontrivial(format!("{:?}/{:?}/{:?}|{}|thread{}|closedstd{}", case.cfg[0], case.cfg[1], case.cfg[2], share, case.fresh_thread as u8, (case.closed_std != 0) as u8));
    }
    // our own fds 0,1,2 become three distinct regular files for the duration
    let mk = |n: &str| -> File {
        let f = std::fs::OpenOptions::new().create(true).truncate(true).read(true).write(true).open(sc.path(n)).unwrap();
        use std::io::Write;
        (&f).write_all(&vec![b'_'; 3000]).unwrap();
        (&f).seek(SeekFrom::Start(0)).unwrap();
        f
    };
    let inh = [mk("std0"), mk("std1"), mk("std2")];
    let result = {
        let _g = StdGuard::new([Some(&inh[0]), Some(&inh[1]), Some(&inh[2])]);
        let std_before = [std_ident(0), std_ident(1), std_ident(2)];
        let mut result = Ok(());
        let reps = case.repeats.clamp(1, 20) as u32;
        if case.fresh_thread {
            // all spawns of this case happen on a thread that exits afterwards
            let (c, h, p, d) = (case.clone(), helper.clone(), prefix.clone(), sc.dir.clone());
            let all: Vec<Obs> = match std::thread::spawn(move || (0..reps).map(|r| spawn_once(&c, &h, &p, &d, r)).collect::<Vec<Obs>>()).join() {
                Ok(v) => v,
                Err(_) => {
                    result = Err(Fail::new("C05:panic-on-spawning-thread", format!("case={:?}", case)));
                    vec![]
                }
            };
            for (r, obs) in all.iter().enumerate() {
                if result.is_err() {
                    break;
                }
                result = judge_one(case, obs, &std_before, &inh, r as u32);
                if result.is_err() {
                    break;
                }
            }
            if result.is_ok() {
                // after the spawning thread has exited our streams are still there
                let after = [std_ident(0), std_ident(1), std_ident(2)];
                if after != std_before {
                    result = Err(Fail::new("C05:parent-stream-closed-at-thread-exit", format!("after the spawning thread exited the harness's fds 0-2 are {:?}, before {:?}\ncase={:?}", after, std_before, case)));
                }
            }
        } else {
            for r in 0..reps {
                let obs = spawn_once(case, &helper, &prefix, &sc.dir, r);
                result = judge_one(case, &obs, &std_before, &inh, r);
                if result.is_err() {
                    break;
                }
            }
        }
        result
    };
    reap_all();
    result
}

const ALL: [RK; 5] = [RK::None, RK::Pipe, RK::File, RK::RcFile, RK::Merge];

fn variant_strategy() -> impl Strategy<Value = ([FK; 3], bool, bool, u8, bool, u8)> {
    let fk = prop_oneof![3 => Just(FK::Regular), 1 => Just(FK::DevNull), 1 => Just(FK::PipeEnd), 2 => Just(FK::SamePath)];
    ([fk.clone(), fk.clone(), fk], any::<bool>(), any::<bool>(), prop_oneof![3 => Just(1u8), 2 => 2u8..5, 1 => 5u8..21], prop_oneof![2 => Just(false), 1 => Just(true)], prop_oneof![2 => Just(0u8), 1 => 1u8..16])
}

fn worker(ctx: &Ctx) {
    quiet_panics();
    let nvar = ctx.tier.pick(8, 200);
    let variants = ctx.sample("c05-variants", &variant_strategy(), 125 * nvar);
    let mut idx = 0usize;
    'outer: for a in ALL {
        for b in ALL {
            for c in ALL {
                for v in 0..nvar {
                    idx += 1;
                    if idx % ctx.nworkers != ctx.worker {
                        continue;
                    }
                    let (kinds, share_rc, share_file, repeats, fresh_thread, closed_std) = variants[idx - 1].clone();
                    let case = WireCase { cfg: [a, b, c], kinds, share_rc, share_file, repeats: if v == 0 { 1 } else { repeats }, fresh_thread: if v == 0 { false } else { fresh_thread }, closed_std: if v == 0 { 0 } else { closed_std } };
                    if !ctx.run_case("real", &case, |rep| check_case(ctx, &case, rep)) {
                        break 'outer;
                    }
                }
            }
        }
    }
}

fn replay(ctx: &Ctx, _engine: &str, case: &Value) -> CaseResult {
    quiet_panics();
    let c: WireCase = serde_json::from_value(case.clone()).map_err(|e| Fail::new("bad-replay-file", e.to_string()))?;
    let mut rep = CaseReport::default();
    check_case(ctx, &c, &mut rep)
}

pub static C05: PropDef = PropDef {
    id: "C05",
    level: "exploration",
    rule: "all 5x5x5 assignments of {None, Pipe, File, RcFile, Merge} to (stdin, stdout, stderr) are enumerated; around each, generated variants (quick 8, thorough 200): what the files are (regular temp file opened read-write, /dev/null, an end of a harness-made pipe), one Rc<File> or one dup'ed File shared by several streams, 1..20 repeated spawns on one thread, spawning from a fresh thread that exits afterwards. For the duration of a case the harness's own fds 0-2 are three distinct temp files. Oracle: the helper child reports for fds 0-2 (dev, ino, type), access mode and pairwise same-open-file-description probes, then sets a distinct offset on each seekable stream and writes distinct tags to 1 and 2. Expected per stream: inherit -> the harness's fd N (identity, and the child's offset/tag visible through the harness's own descriptor); pipe -> FIFO whose inode equals the Popen's handle, right direction, tag arrives; file/RcFile -> identity of the file passed and the child's offset visible through a dup the harness kept (same open file, not a re-open); merge -> same description as the other output stream's expectation. Handle exposed iff piped; stdin=Merge and stdout=stderr=Merge -> Err(LogicError), zero forks, clean descriptor audit; the harness's fds 0-2 unchanged after every spawn and after the spawning thread exited. Non-trivial = every configuration other than (None, None, None); distinct = distinct (configuration, variant) cases. In the closed-descriptor variants the files handed over in the configuration may themselves sit on the freed numbers 0-2 (opened by a parent in that state). A further file kind gives every stream its own, separately opened handle to one and the same path (same inode, different open file descriptions).",
    assumptions: &["exhaustive over the 125 configurations; variants around each are sampled", "identity of an open file description is established by fstat plus shared-flag / shared-offset probes (kcmp is unavailable in this kernel)"],
    engines: "real",
    workers: |_| 16,
    worker,
    replay,
    exhaustive: true,
};
