pub mod c0104;
pub mod c05;
pub mod c06;
pub mod c07;
pub mod c08;
pub mod c0911;
pub mod c12;
pub mod c13;
pub mod c14;
pub mod c15;
pub mod c16;
pub mod c17;
pub mod c18;
pub mod c19;
pub mod realcomm;

use crate::runner::PropDef;

pub fn all() -> Vec<&'static PropDef> {
    vec![&c0104::C01, &c0104::C02, &c0104::C03, &c0104::C04, &c05::C05, &c06::C06, &c07::C07, &c08::C08, &c0911::C09, &c0911::C10, &c0911::C11, &c12::C12, &c13::C13, &c14::C14, &c15::C15, &c16::C16, &c17::C17, &c18::C18, &c19::C19]
}
