//! C08: no pipe end leaks into a child.
//! Pipe registry (interposed pipe()), children's descriptor tables from /proc,
//! spawn histories on one thread, pipelines, and concurrent spawns under a
//! cooperative scheduler that owns the interleaving at system-call granularity.
use crate::hang;
use crate::interpose as ip;
use crate::props::c0104::quiet_panics;
use crate::real::*;
use crate::runner::*;
use proptest::prelude::*;
use serde::{Deserialize, Serialize};
use serde_json::Value;
use std::collections::{BTreeMap, BTreeSet};
use std::io::Read;
use std::os::unix::io::AsRawFd;
use std::sync::atomic::{AtomicBool, AtomicI32, AtomicUsize, Ordering::SeqCst};
use subprocess::{Exec, Pipeline, Popen, PopenConfig, Redirection};

#[derive(Clone, Copy, Debug, PartialEq, Serialize, Deserialize)]
pub enum SK {
    None,
    Pipe,
    Merge,
}

#[derive(Clone, Debug, Serialize, Deserialize)]
pub enum Step {
    /// spawn one child with (stdin, stdout, stderr)
    Spawn(SK, SK, SK),
    /// Pipeline::popen with n stages, stdin piped or not, stdout piped or not
    PipelinePopen(u8, bool, bool),
    /// Pipeline::communicate with n stages (stderr capture pipe)
    PipelineCommunicate(u8),
    /// Pipeline::stream_stdin / stream_stdout
    PipelineStream(u8, bool),
    /// a pipe made with the crate's make_pipe(); its write end becomes a child's
    /// stdout through Redirection::RcFile (true) / File (false) while the caller
    /// keeps its own handle open
    SpawnToUserPipe(bool),
    /// spawn (all streams inherited) while the parent's own fds in the mask
    /// (bit 0..2 = fd 0..2) are closed, as in a daemonized parent
    SpawnClosedStd(u8),
    /// a launch that fails in exec with ETXTBSY (the program file is open for
    /// writing) while the earlier Popens are alive: the forked child holds a copy
    /// of every descriptor of the parent until it exits, so it must not linger
    SpawnBusyText,
    /// daemon-style parent (own fds in the mask closed): a child with piped stdin
    /// and/or stdout is spawned - the parent's ends of its pipes land on the free
    /// numbers 0-2 - and then a second child with nothing redirected, which must not
    /// get hold of them
    DaemonPair(u8, bool, bool),
}

#[derive(Clone, Debug, Serialize, Deserialize)]
pub struct LeakCase {
    pub steps: Vec<Step>,
    /// pipe2() is unavailable (ENOSYS) for the whole history while pipe() works: a
    /// launch may then fail with that error, or make do without pipe2 - in which case
    /// the children's tables have to be as clean as ever
    #[serde(default)]
    pub no_pipe2: bool,
}

#[derive(Clone, Copy, Debug, PartialEq, Serialize, Deserialize)]
pub enum Work {
    Spawn(SK, SK, SK),
    /// Pipeline::popen of n stages (stdin and stdout not piped)
    Pipeline(u8),
}

#[derive(Clone, Debug, Serialize, Deserialize)]
pub struct ConcCase {
    /// per thread: what it starts, one after the other
    pub threads: Vec<Vec<Work>>,
    /// schedule: which thread runs until its next system call
    pub schedule: Vec<u8>,
}

/// One bad entry found in a child's descriptor table.
#[derive(Debug)]
struct Leak {
    kind: &'static str,
    detail: String,
}

struct World {
    /// registered pipes by inode
    pipes: BTreeMap<u64, ip::PipeRec>,
    /// inodes of status channels (first pipe of every create call)
    status: BTreeSet<u64>,
    /// inode -> (pid of the child whose Popen exposes the parent end, parent end is the write end)
    owner: BTreeMap<u64, (u32, bool)>,
    /// inodes of stderr-capture pipes (Pipeline::communicate/capture)
    capture: BTreeSet<u64>,
}

fn pipe_ino_of(target: &str) -> Option<u64> {
    target.strip_prefix("pipe:[")?.strip_suffix(']')?.parse().ok()
}

fn audit_child(pid: u32, w: &World, ctx_name: &str) -> Result<(), Leak> {
    let table = match proc_fds(pid) {
        Some(t) => t,
        None => return Ok(()), // gone
    };
    // library pipes this child uses as standard streams: inode -> is-write
    let mut std_use: BTreeMap<u64, bool> = BTreeMap::new();
    for fd in 0..3 {
        if let Some((t, flags)) = table.get(&fd) {
            if let Some(i) = pipe_ino_of(t) {
                let acc = i64::from_str_radix(flags, 8).unwrap_or(0) & 3;
                std_use.insert(i, acc != 0);
            }
        }
    }
    for (fd, (target, flags)) in &table {
        let ino = match pipe_ino_of(target) {
            Some(i) => i,
            None => continue,
        };
        if !w.pipes.contains_key(&ino) {
            continue; // not a pipe the library made: never judged
        }
        let acc = i64::from_str_radix(flags, 8).unwrap_or(0) & 3;
        let is_write = acc != 0;
        let end = if is_write { "write" } else { "read" };
        let here = format!("child {} fd {} = {} end of library pipe:[{}] ({})", pid, fd, end, ino, ctx_name);
        if w.status.contains(&ino) {
            return Err(Leak { kind: "status-channel", detail: format!("launch-status channel inherited: {}", here) });
        }
        if *fd <= 2 {
            // standard streams: the child side only
            let child_side = if *fd == 0 { !is_write } else { is_write };
            if !child_side {
                return Err(Leak { kind: "wrong-end-as-standard-stream", detail: here });
            }
        }
        if let Some((owner, parent_writes)) = w.owner.get(&ino) {
            if *owner != pid {
                return Err(Leak { kind: "other-childs-end", detail: format!("pipe of child {}'s Popen: {}", owner, here) });
            }
            if is_write == *parent_writes {
                return Err(Leak { kind: "parent-end", detail: format!("the parent's side of its own pipe: {}", here) });
            }
            continue;
        }
        if w.capture.contains(&ino) {
            if !is_write {
                return Err(Leak { kind: "stderr-capture-read-end", detail: format!("read end of the pipeline's stderr capture pipe: {}", here) });
            }
            continue;
        }
        // inter-stage pipe of a pipeline: only the two adjacent stages, each its own end
        match std_use.get(&ino) {
            None => return Err(Leak { kind: "other-childs-end", detail: format!("inter-stage pipe of other stages: {}", here) }),
            Some(w_end) => {
                if *w_end != is_write {
                    return Err(Leak { kind: "other-childs-end", detail: format!("the neighbouring stage's end: {}", here) });
                }
            }
        }
    }
    Ok(())
}

/// Audit of a child that has exec'ed while creates on other threads may still
/// be in flight (ownership not yet known): a registered pipe may appear beyond
/// fds 0-2 only as a second copy of one of the child's own standard streams.
fn audit_inflight(pid: u32, w: &World) -> Result<(), Leak> {
    let table = match proc_fds(pid) {
        Some(t) => t,
        None => return Ok(()),
    };
    let mut std_use: BTreeSet<(u64, bool)> = BTreeSet::new();
    for fd in 0..3 {
        if let Some((t, flags)) = table.get(&fd) {
            if let Some(i) = pipe_ino_of(t) {
                std_use.insert((i, i64::from_str_radix(flags, 8).unwrap_or(0) & 3 != 0));
            }
        }
    }
    for (fd, (target, flags)) in &table {
        let ino = match pipe_ino_of(target) {
            Some(i) => i,
            None => continue,
        };
        let rec = match w.pipes.get(&ino) {
            Some(r) => r,
            None => continue,
        };
        let is_write = i64::from_str_radix(flags, 8).unwrap_or(0) & 3 != 0;
        let here = format!("child {} holds fd {} = {} end of pipe:[{}] created by harness thread {}", pid, fd, if is_write { "write" } else { "read" }, ino, rec.tid);
        if w.status.contains(&ino) {
            return Err(Leak { kind: "status-channel", detail: here });
        }
        if *fd > 2 && !std_use.contains(&(ino, is_write)) {
            return Err(Leak { kind: "foreign-pipe-end", detail: here });
        }
    }
    Ok(())
}

/// Run a library call while a monitor thread audits every child that has
/// exec'ed.  A leaked launch-status channel makes `Popen::create` itself block
/// for as long as the (never-ending) helper children live, so the audit cannot
/// wait for the call to return: on a leak the children are killed, which lets
/// the call finish, and the leak is reported.
fn with_monitor<T>(f: impl FnOnce() -> T) -> (T, Option<Leak>) {
    use std::sync::{Arc, Mutex};
    let stop = Arc::new(AtomicBool::new(false));
    let found: Arc<Mutex<Option<Leak>>> = Arc::new(Mutex::new(None));
    let (s2, f2) = (stop.clone(), found.clone());
    let helper_exe = vchild_path();
    let mon = std::thread::spawn(move || {
        // The monitor only matters when the call blocks.  It stays passive for
        // 150 ms (an ordinary spawn is over long before) because it opens files
        // under /proc, which must not happen while a step has closed the
        // process's own fds 0-2 for a moment (the numbers would be reused).
        let t0 = ip::real_now_ns();
        while !s2.load(SeqCst) {
            std::thread::park_timeout(std::time::Duration::from_millis(10));
            if s2.load(SeqCst) {
                return;
            }
            if (ip::real_now_ns() - t0) / 1_000_000 < 150 {
                continue;
            }
            let snap = ip::pipes_snapshot();
            let mut w = World { pipes: BTreeMap::new(), status: BTreeSet::new(), owner: BTreeMap::new(), capture: BTreeSet::new() };
            for pr in &snap {
                w.pipes.insert(pr.ino, *pr);
            }
            let kids = hang::my_children();
            for c in &kids {
                if proc_exe(*c as u32).map(|e| e == helper_exe).unwrap_or(false) {
                    if let Err(l) = audit_inflight(*c as u32, &w) {
                        *f2.lock().unwrap() = Some(l);
                        // from here on no file is opened any more: kill by the pids already known
                        while !s2.load(SeqCst) {
                            for k in &kids {
                                unsafe { ip::raw_kill(*k, libc::SIGKILL) };
                            }
                            ip::real_sleep_ms(10);
                        }
                        return;
                    }
                }
            }
        }
    });
    let r = f();
    stop.store(true, SeqCst);
    mon.thread().unpark();
    let _ = mon.join();
    let l = found.lock().unwrap().take();
    (r, l)
}

/// A pipe of the harness's own (not registered, both ends close-on-exec).
fn harness_pipe() -> (std::fs::File, std::fs::File) {
    use std::os::unix::io::FromRawFd;
    let mut fds = [0i32; 2];
    unsafe {
        ip::raw_pipe2(fds.as_mut_ptr(), libc::O_CLOEXEC);
        (std::fs::File::from_raw_fd(fds[0]), std::fs::File::from_raw_fd(fds[1]))
    }
}

fn red(k: SK) -> Redirection {
    match k {
        SK::None => Redirection::None,
        SK::Pipe => Redirection::Pipe,
        SK::Merge => Redirection::Merge,
    }
}

fn child_argv(stdin: SK) -> Vec<std::ffi::OsString> {
    let h = vchild_path().into_os_string();
    if stdin == SK::Pipe {
        vec![h, "holdread".into(), "0".into()]
    } else {
        vec![h, "hold".into()]
    }
}

/// A copy of the helper that this process keeps open for writing: exec of it
/// fails with ETXTBSY.
fn busy_text(ctx: &Ctx) -> std::path::PathBuf {
    thread_local! {
        static BUSY: std::cell::RefCell<Option<(std::path::PathBuf, std::fs::File)>> = const { std::cell::RefCell::new(None) };
    }
    BUSY.with(|b| {
        let mut b = b.borrow_mut();
        if b.is_none() {
            let p = ctx.scratch.join(format!("busy-text-{}", std::process::id()));
            std::fs::copy(vchild_path(), &p).expect("copy helper");
            let f = std::fs::OpenOptions::new().write(true).open(&p).expect("open helper copy for writing");
            *b = Some((p, f));
        }
        b.as_ref().unwrap().0.clone()
    })
}

fn refresh_registry(w: &mut World, from: usize) -> usize {
    let snap = ip::pipes_snapshot();
    for p in &snap[from.min(snap.len())..] {
        w.pipes.insert(p.ino, *p);
    }
    snap.len()
}

pub fn check_history(ctx: &Ctx, case: &LeakCase, rep: &mut CaseReport) -> CaseResult {
    let r = check_history_inner(ctx, case, rep);
    ip::PIPE2_ENOSYS.store(false, SeqCst);
    r
}

fn check_history_inner(ctx: &Ctx, case: &LeakCase, rep: &mut CaseReport) -> CaseResult {
    reap_all();
    let fail = |kind: &str, context: &str, msg: String| Err(Fail::new(format!("C08:{}:{}", context, kind), format!("{}\ncase={:?}", msg, case)));
    ip::pipes_reset();
    ip::PIPE_REG_ON.store(true, SeqCst);
    let mut w = World { pipes: BTreeMap::new(), status: BTreeSet::new(), owner: BTreeMap::new(), capture: BTreeSet::new() };
    let mut reg_pos = 0usize;
    let mut live: Vec<Popen> = vec![];
    let mut comms: Vec<subprocess::Communicator> = vec![];
    let mut adapters_r: Vec<Box<dyn Read>> = vec![];
    let mut adapters_w: Vec<Box<dyn std::io::Write>> = vec![];
    let mut all_pids: Vec<u32> = vec![];
    let mut contexts: BTreeSet<&'static str> = BTreeSet::new();
    let mut max_alive_with_pipe = 0usize;
    let mut result: CaseResult = Ok(());
    ip::PIPE2_ENOSYS.store(case.no_pipe2, SeqCst);
    'steps: for step in &case.steps {
        let before_children: BTreeSet<i32> = hang::my_children().into_iter().collect();
        let snap_before = ip::pipes_snapshot().len();
        let context: &'static str;
        match step {
            Step::Spawn(i, o, e) => {
                context = "single";
                let (o, e) = if *o == SK::Merge && *e == SK::Merge { (SK::Pipe, SK::Merge) } else { (*o, *e) };
                let i = if *i == SK::Merge { SK::None } else { *i };
                let cfg = PopenConfig { stdin: red(i), stdout: red(o), stderr: red(e), ..Default::default() };
                let (created, leak) = with_monitor(|| Popen::create(&child_argv(i), cfg));
                if let Some(l) = leak {
                    result = fail(l.kind, context, format!("while Popen::create was still running: {}", l.detail));
                    break 'steps;
                }
                match created {
                    Ok(p) => {
                        let snap = ip::pipes_snapshot();
                        if let Some(first) = snap.get(snap_before) {
                            w.status.insert(first.ino);
                        }
                        let pid = p.pid().unwrap_or(0);
                        if let Some(f) = &p.stdin {
                            w.owner.insert(fd_ident(f.as_raw_fd()).1, (pid, true));
                        }
                        for f in [&p.stdout, &p.stderr].into_iter().flatten() {
                            w.owner.insert(fd_ident(f.as_raw_fd()).1, (pid, false));
                        }
                        live.push(p);
                    }
                    Err(e) => {
                        result = fail("spawn-error", context, e.to_string());
                        break 'steps;
                    }
                }
            }
            Step::PipelinePopen(n, pin, pout) => {
                context = "pipeline";
                let n = (*n).clamp(2, 6) as usize;
                let cmds: Vec<Exec> = (0..n).map(|_| Exec::cmd(vchild_path()).arg("holdread").arg("0")).collect();
                let mut p = Pipeline::from_exec_iter(cmds);
                if *pin {
                    p = p.stdin(Redirection::Pipe);
                } else {
                    // an input that never ends on its own: a pipe the harness holds
                    let (r, wr) = harness_pipe();
                    HELD.with(|h| h.borrow_mut().push(wr));
                    p = p.stdin(r);
                }
                if *pout {
                    p = p.stdout(Redirection::Pipe);
                }
                let (popened, leak) = with_monitor(|| p.popen());
                if let Some(l) = leak {
                    result = fail(l.kind, context, format!("while Pipeline::popen was still running: {}", l.detail));
                    break 'steps;
                }
                match popened {
                    Ok(v) => {
                        let snap = ip::pipes_snapshot();
                        // every create call's first pipe is its status channel: the pipes made in
                        // this step alternate status / stdin? no: identify status pipes by being
                        // absent from every child's fds 0-2 and from the Popen handles after start;
                        // simpler and sound: a status pipe is closed by the parent after create, so
                        // any registered pipe of this step that the parent no longer holds and that
                        // is not an inter-stage pipe is a status channel
                        let mine = fd_snapshot();
                        let held: BTreeSet<u64> = mine.values().filter_map(|e| pipe_ino_of(&e.target)).collect();
                        let mut stage_std: BTreeSet<u64> = BTreeSet::new();
                        for x in &v {
                            if let Some(t) = proc_fds(x.pid().unwrap_or(0)) {
                                for fd in 0..3 {
                                    if let Some((tg, _)) = t.get(&fd) {
                                        if let Some(i) = pipe_ino_of(tg) {
                                            stage_std.insert(i);
                                        }
                                    }
                                }
                            }
                        }
                        for pr in &snap[snap_before.min(snap.len())..] {
                            if !held.contains(&pr.ino) && !stage_std.contains(&pr.ino) {
                                w.status.insert(pr.ino);
                            }
                        }
                        for x in v {
                            let pid = x.pid().unwrap_or(0);
                            if let Some(f) = &x.stdin {
                                w.owner.insert(fd_ident(f.as_raw_fd()).1, (pid, true));
                            }
                            for f in [&x.stdout, &x.stderr].into_iter().flatten() {
                                w.owner.insert(fd_ident(f.as_raw_fd()).1, (pid, false));
                            }
                            live.push(x);
                        }
                    }
                    Err(e) => {
                        result = fail("spawn-error", context, e.to_string());
                        break 'steps;
                    }
                }
            }
            Step::PipelineCommunicate(n) => {
                context = "pipeline-communicate";
                let n = (*n).clamp(2, 6) as usize;
                let cmds: Vec<Exec> = (0..n).map(|_| Exec::cmd(vchild_path()).arg("holdread").arg("0")).collect();
                let p = Pipeline::from_exec_iter(cmds).stdin(vec![b'x'; 10]);
                let (comm, leak) = with_monitor(|| p.communicate());
                if let Some(l) = leak {
                    result = fail(l.kind, context, format!("while Pipeline::communicate was still running: {}", l.detail));
                    break 'steps;
                }
                match comm {
                    Ok(c) => {
                        // the capture pipe is the first pipe made in this step
                        let snap = ip::pipes_snapshot();
                        if let Some(first) = snap.get(snap_before) {
                            w.capture.insert(first.ino);
                        }
                        comms.push(c);
                    }
                    Err(e) => {
                        result = fail("spawn-error", context, e.to_string());
                        break 'steps;
                    }
                }
            }
            Step::SpawnClosedStd(mask) => {
                context = "closed-std";
                let (res, leak) = with_monitor(|| {
                    let _g = CloseGuard::new(*mask & 7);
                    Popen::create(&child_argv(SK::None), PopenConfig::default())
                });
                if let Some(l) = leak {
                    result = fail(l.kind, context, format!("while Popen::create was still running: {}", l.detail));
                    break 'steps;
                }
                match res {
                    Ok(p) => {
                        let snap = ip::pipes_snapshot();
                        if let Some(first) = snap.get(snap_before) {
                            w.status.insert(first.ino);
                        }
                        live.push(p);
                    }
                    Err(e) => {
                        result = fail("spawn-error", context, e.to_string());
                        break 'steps;
                    }
                }
            }
            Step::DaemonPair(mask, pin, pout) => {
                context = "daemon-pair";
                let (pin, pout) = if !*pin && !*pout { (true, false) } else { (*pin, *pout) };
                let mut found: Option<Leak> = None;
                let mut problem: Option<String> = None;
                {
                    // everything that may sit on descriptors 0-2 is gone again before the guard restores them
                    let _g = CloseGuard::new(*mask & 7);
                    let cfg_a = PopenConfig { stdin: if pin { Redirection::Pipe } else { Redirection::None }, stdout: if pout { Redirection::Pipe } else { Redirection::None }, ..Default::default() };
                    let s0 = ip::pipes_snapshot().len();
                    match Popen::create(&child_argv(if pin { SK::Pipe } else { SK::None }), cfg_a) {
                        Err(e) => problem = Some(e.to_string()),
                        Ok(mut a) => {
                            let apid = a.pid().unwrap_or(0);
                            let s1 = ip::pipes_snapshot().len();
                            let created_b = Popen::create(&child_argv(SK::None), PopenConfig::default());
                            let snap = ip::pipes_snapshot();
                            for p in &snap[s0.min(snap.len())..] {
                                w.pipes.insert(p.ino, *p);
                            }
                            for first in [snap.get(s0), snap.get(s1)].into_iter().flatten() {
                                w.status.insert(first.ino);
                            }
                            if let Some(f) = &a.stdin {
                                w.owner.insert(fd_ident(f.as_raw_fd()).1, (apid, true));
                            }
                            if let Some(f) = &a.stdout {
                                w.owner.insert(fd_ident(f.as_raw_fd()).1, (apid, false));
                            }
                            match created_b {
                                Err(e) => problem = Some(e.to_string()),
                                Ok(mut b) => {
                                    let bpid = b.pid().unwrap_or(0);
                                    if let Err(l) = audit_child(bpid, &w, context) {
                                        found = Some(l);
                                    } else if let Err(l) = audit_child(apid, &w, context) {
                                        found = Some(l);
                                    }
                                    let _ = b.kill();
                                    let _ = b.wait();
                                }
                            }
                            drop(a.stdin.take());
                            drop(a.stdout.take());
                            let _ = a.kill();
                            let _ = a.wait();
                        }
                    }
                }
                if let Some(l) = found {
                    result = fail(l.kind, context, l.detail);
                    break 'steps;
                }
                if let Some(e) = problem {
                    result = fail("spawn-error", context, e);
                    break 'steps;
                }
            }
            Step::SpawnBusyText => {
                context = "busy-text";
                let prog = busy_text(ctx);
                ip::shared_reset();
                let res = Popen::create(&[prog.into_os_string()], PopenConfig::default());
                let sleeps = ip::shared().child_sleeps.load(SeqCst);
                match res {
                    Ok(mut p) => {
                        let _ = p.kill();
                        let _ = p.wait();
                        result = fail("harness", context, "a program file open for writing was executed".into());
                        break 'steps;
                    }
                    Err(_) => {}
                }
                if sleeps > 0 {
                    result = fail("pre-exec-child-sleeps", context, format!("the forked child of a failing launch called nanosleep {} time(s) before giving up; it holds a copy of every pipe end of the parent (other children's included) all that time, so their end-of-file is held back", sleeps));
                    break 'steps;
                }
            }
            Step::SpawnToUserPipe(rc) => {
                context = "user-pipe";
                let (r, wr) = match subprocess::make_pipe() {
                    Ok(x) => x,
                    Err(e) => {
                        // (no pipe2: the crate's own pipe constructor may refuse)
                        result = fail("spawn-error", context, e.to_string());
                        break 'steps;
                    }
                };
                let wr_ino = fd_ident(wr.as_raw_fd()).1;
                let cfg = if *rc {
                    let rcw = std::rc::Rc::new(wr);
                    let c = PopenConfig { stdout: Redirection::RcFile(std::rc::Rc::clone(&rcw)), ..Default::default() };
                    HELD_RC.with(|h| h.borrow_mut().push(rcw));
                    c
                } else {
                    let c = PopenConfig { stdout: Redirection::File(wr.try_clone().unwrap()), ..Default::default() };
                    HELD.with(|h| h.borrow_mut().push(wr));
                    c
                };
                HELD.with(|h| h.borrow_mut().push(r));
                let (created, leak) = with_monitor(|| Popen::create(&child_argv(SK::None), cfg));
                if let Some(l) = leak {
                    result = fail(l.kind, context, format!("while Popen::create was still running: {}", l.detail));
                    break 'steps;
                }
                match created {
                    Ok(p) => {
                        let snap = ip::pipes_snapshot();
                        // pipes of this step: the user pipe, then the status pipe of create
                        if let Some(st) = snap.get(snap_before + 1) {
                            w.status.insert(st.ino);
                        }
                        let _ = wr_ino;
                        live.push(p);
                    }
                    Err(e) => {
                        result = fail("spawn-error", context, e.to_string());
                        break 'steps;
                    }
                }
            }
            Step::PipelineStream(n, input) => {
                context = "pipeline-stream";
                let n = (*n).clamp(2, 6) as usize;
                let cmds: Vec<Exec> = (0..n).map(|_| Exec::cmd(vchild_path()).arg("holdread").arg("0")).collect();
                let p = Pipeline::from_exec_iter(cmds);
                if *input {
                    match p.stdout(subprocess::NullFile).stream_stdin() {
                        Ok(wr) => adapters_w.push(Box::new(wr)),
                        Err(e) => {
                            result = fail("spawn-error", context, e.to_string());
                            break 'steps;
                        }
                    }
                } else {
                    let (r, wr) = harness_pipe();
                    HELD.with(|h| h.borrow_mut().push(wr));
                    match p.stdin(r).stream_stdout() {
                        Ok(rd) => adapters_r.push(Box::new(rd)),
                        Err(e) => {
                            result = fail("spawn-error", context, e.to_string());
                            break 'steps;
                        }
                    }
                }
            }
        }
        contexts.insert(context);
        reg_pos = refresh_registry(&mut w, reg_pos);
        let now_children: Vec<i32> = hang::my_children();
        for c in &now_children {
            if !before_children.contains(c) {
                all_pids.push(*c as u32);
            }
        }
        // wait until every new child has exec'ed (create returns after exec for Popen;
        // communicate/stream return after the last create)
        let alive_with_pipe = now_children.len();
        max_alive_with_pipe = max_alive_with_pipe.max(alive_with_pipe);
        // audit every live child after every step
        for c in &now_children {
            if let Err(l) = audit_child(*c as u32, &w, context) {
                result = fail(l.kind, if before_children.contains(c) { "earlier-child" } else { context }, l.detail);
                break 'steps;
            }
        }
    }
    // behavioural half (only when the tables are clean): EOF propagates
    if result.is_ok() {
        for mut p in live.drain(..) {
            let pid = p.pid().unwrap_or(0);
            if p.stdin.is_some() {
                drop(p.stdin.take());
                // a read-to-EOF child exits now unless somebody else holds the write end
                let done = wait_until(5000, || proc_state(pid).map(|s| s == 'Z').unwrap_or(true));
                if !done {
                    result = fail("stdin-eof-not-seen", "behaviour", format!("child {} still runs 5 s after the parent closed its stdin", pid));
                }
            }
            unsafe { ip::raw_kill(pid as i32, libc::SIGKILL) };
            if let Some(mut o) = p.stdout.take() {
                // after the child is dead its stdout must reach EOF although other children live
                let fd = o.as_raw_fd();
                let mut pf = libc::pollfd { fd, events: libc::POLLIN, revents: 0 };
                let r = unsafe { libc::syscall(libc::SYS_poll, &mut pf as *mut libc::pollfd, 1, 5000) };
                if r <= 0 {
                    result = fail("stdout-eof-not-seen", "behaviour", format!("no end-of-file on the stdout of killed child {} within 5 s: another process holds its write end", pid));
                } else {
                    let mut b = vec![];
                    let _ = o.read_to_end(&mut b);
                }
            }
            let _ = p.wait();
            if result.is_err() {
                break;
            }
        }
    }
    ip::PIPE_REG_ON.store(false, SeqCst);
    ip::PIPE2_ENOSYS.store(false, SeqCst);
    if case.no_pipe2 {
        // giving up with ENOSYS is a legitimate answer to a missing pipe2()
        if let Err(f) = &result {
            if f.signature.ends_with(":spawn-error") && (f.detail.contains("os error 38") || f.detail.contains("not implemented")) {
                result = Ok(());
            }
        }
    }
    // cleanup
    hang::kill_children();
    for mut p in live.drain(..) {
        drop(p.stdin.take());
        let _ = p.wait();
    }
    drop(comms);
    HELD.with(|h| h.borrow_mut().clear());
    HELD_RC.with(|h| h.borrow_mut().clear());
    drop(adapters_w);
    drop(adapters_r);
    reap_all();
    if max_alive_with_pipe >= 2 {
        let shape = format!("steps{}|{}", case.steps.len().min(6), contexts.iter().cloned().collect::<Vec<_>>().join("+"));
        rep.nontrivial(shape);
    }
    rep.count("children_audited", all_pids.len() as u64);
    result
}

thread_local! {
    static HELD: std::cell::RefCell<Vec<std::fs::File>> = const { std::cell::RefCell::new(Vec::new()) };
    static HELD_RC: std::cell::RefCell<Vec<std::rc::Rc<std::fs::File>>> = const { std::cell::RefCell::new(Vec::new()) };
}

// ---------------------------------------------------------------------------
// Concurrent part: cooperative scheduler at system-call granularity
// ---------------------------------------------------------------------------

const MAXT: usize = 4;
static SCHED_ON: AtomicBool = AtomicBool::new(false);
static TURN: AtomicUsize = AtomicUsize::new(0);
static TIDS: [AtomicI32; MAXT] = [const { AtomicI32::new(0) }; MAXT];
static DONE: [AtomicBool; MAXT] = [const { AtomicBool::new(true) }; MAXT];
static SCHED_POS: AtomicUsize = AtomicUsize::new(0);
static SCHED_LEN: AtomicUsize = AtomicUsize::new(0);
static mut SCHED: [u8; 4096] = [0; 4096];
static NTHREADS: AtomicUsize = AtomicUsize::new(0);

fn my_index() -> Option<usize> {
    let tid = unsafe { libc::syscall(libc::SYS_gettid) as i32 };
    (0..MAXT).find(|i| TIDS[*i].load(SeqCst) == tid)
}

fn pick_next(me: usize) -> usize {
    let n = NTHREADS.load(SeqCst);
    let pos = SCHED_POS.fetch_add(1, SeqCst);
    let len = SCHED_LEN.load(SeqCst);
    let want = if pos < len { unsafe { (*std::ptr::addr_of!(SCHED))[pos] as usize % n } } else { me };
    // first thread at or after `want` that is not done
    for k in 0..n {
        let c = (want + k) % n;
        if !DONE[c].load(SeqCst) {
            return c;
        }
    }
    me
}

fn wait_turn(me: usize) {
    let mut spins = 0u32;
    while SCHED_ON.load(SeqCst) && TURN.load(SeqCst) != me {
        // if the holder of the turn finished meanwhile the turn is passed on by it
        spins = spins.wrapping_add(1);
        if spins % 64 == 0 {
            unsafe { libc::syscall(libc::SYS_sched_yield) };
        }
        std::hint::spin_loop();
    }
}

/// Called (through interpose::YIELD_HOOK) at the top of every interposed call
/// made by a participating thread in the parent process.  No allocation.
fn yield_hook(_kind: usize) {
    if !SCHED_ON.load(SeqCst) {
        return;
    }
    if let Some(me) = my_index() {
        if DONE[me].load(SeqCst) {
            return;
        }
        let next = pick_next(me);
        TURN.store(next, SeqCst);
        wait_turn(me);
    }
}

struct ThreadResult {
    children: Vec<(u32, Vec<(u64, bool)>)>, // pid, (inode, parent writes) of its Popen handles
    popens: Vec<Popen>,
    status_inodes: Vec<u64>,
    error: Option<String>,
    held: Vec<std::fs::File>,
}

pub fn check_concurrent(ctx: &Ctx, case: &ConcCase, rep: &mut CaseReport) -> CaseResult {
    let _ = ctx;
    ip::PIPE2_ENOSYS.store(false, SeqCst);
    reap_all();
    let nt = case.threads.len().clamp(2, 3);
    let fail = |kind: &str, msg: String| Err(Fail::new(format!("C08:concurrent:{}", kind), format!("{}\ncase={:?}", msg, case)));
    ip::pipes_reset();
    ip::PIPE_REG_ON.store(true, SeqCst);
    unsafe {
        let s = &mut *std::ptr::addr_of_mut!(SCHED);
        for (i, b) in case.schedule.iter().take(4096).enumerate() {
            s[i] = *b;
        }
    }
    SCHED_LEN.store(case.schedule.len().min(4096), SeqCst);
    SCHED_POS.store(0, SeqCst);
    NTHREADS.store(nt, SeqCst);
    for i in 0..MAXT {
        TIDS[i].store(0, SeqCst);
        DONE[i].store(i >= nt, SeqCst);
    }
    TURN.store(0, SeqCst);
    let ready = std::sync::Arc::new(std::sync::Barrier::new(nt + 1));
    let mut handles = vec![];
    for t in 0..nt {
        let cfgs = case.threads[t].clone();
        let ready = ready.clone();
        handles.push(std::thread::spawn(move || -> ThreadResult {
            TIDS[t].store(unsafe { libc::syscall(libc::SYS_gettid) as i32 }, SeqCst);
            ready.wait();
            // wait for the scheduler to be switched on, then for our first turn
            while !SCHED_ON.load(SeqCst) {
                std::hint::spin_loop();
            }
            wait_turn(t);
            let mut res = ThreadResult { children: vec![], popens: vec![], status_inodes: vec![], error: None, held: vec![] };
            for wk in cfgs {
                let tid = unsafe { libc::syscall(libc::SYS_gettid) as i32 };
                let before: Vec<u64> = ip::pipes_snapshot().iter().filter(|p| p.tid == tid).map(|p| p.ino).collect();
                match wk {
                    Work::Spawn(i, o, e) => {
                        let (o, e) = if o == SK::Merge && e == SK::Merge { (SK::Pipe, SK::Merge) } else { (o, e) };
                        let i = if i == SK::Merge { SK::None } else { i };
                        match Popen::create(&child_argv(i), PopenConfig { stdin: red(i), stdout: red(o), stderr: red(e), ..Default::default() }) {
                            Ok(p) => {
                                let mine: Vec<u64> = ip::pipes_snapshot().iter().filter(|p| p.tid == tid).map(|p| p.ino).collect();
                                if let Some(first) = mine.get(before.len()) {
                                    res.status_inodes.push(*first);
                                }
                                let mut inos: Vec<(u64, bool)> = vec![];
                                if let Some(f) = &p.stdin {
                                    inos.push((fd_ident(f.as_raw_fd()).1, true));
                                }
                                for f in [&p.stdout, &p.stderr].into_iter().flatten() {
                                    inos.push((fd_ident(f.as_raw_fd()).1, false));
                                }
                                res.children.push((p.pid().unwrap_or(0), inos));
                                res.popens.push(p);
                            }
                            Err(e) => {
                                res.error = Some(e.to_string());
                                break;
                            }
                        }
                    }
                    Work::Pipeline(n) => {
                        let n = n.clamp(2, 4) as usize;
                        let (r, wr) = harness_pipe();
                        let cmds: Vec<Exec> = (0..n).map(|_| Exec::cmd(vchild_path()).arg("holdread").arg("0")).collect();
                        match Pipeline::from_exec_iter(cmds).stdin(r).stdout(subprocess::NullFile).popen() {
                            Ok(v) => {
                                let mine: Vec<u64> = ip::pipes_snapshot().iter().filter(|p| p.tid == tid).map(|p| p.ino).collect();
                                // pipes of one stage: status, then (unless last) its stdout pipe
                                let mut idx = before.len();
                                for k in 0..n {
                                    if let Some(x) = mine.get(idx) {
                                        res.status_inodes.push(*x);
                                    }
                                    idx += if k + 1 < n { 2 } else { 1 };
                                }
                                for p in v {
                                    res.children.push((p.pid().unwrap_or(0), vec![]));
                                    res.popens.push(p);
                                }
                                res.held.push(wr);
                            }
                            Err(e) => {
                                res.error = Some(e.to_string());
                                break;
                            }
                        }
                    }
                }
            }
            // hand the turn over for good
            DONE[t].store(true, SeqCst);
            let next = pick_next(t);
            TURN.store(next, SeqCst);
            res
        }));
    }
    ready.wait();
    ip::YIELD_HOOK.store(yield_hook as usize, SeqCst);
    SCHED_ON.store(true, SeqCst);
    // While the threads run, audit every child that has exec'ed: an in-flight
    // pipe end inherited by another thread's child can also block that other
    // thread's create() forever (its status pipe never reaches EOF), so the
    // audit must not wait for the threads.
    let helper_exe = vchild_path();
    let mut early: Option<Leak> = None;
    let t_start = ip::real_now_ns();
    loop {
        if handles.iter().all(|h| h.is_finished()) {
            break;
        }
        // registry so far; status pipes = the first pipe of each create, per thread
        let snap = ip::pipes_snapshot();
        let mut w = World { pipes: BTreeMap::new(), status: BTreeSet::new(), owner: BTreeMap::new(), capture: BTreeSet::new() };
        for pr in &snap {
            w.pipes.insert(pr.ino, *pr);
        }
        for t in 0..nt {
            let tid = TIDS[t].load(SeqCst);
            let mine: Vec<&ip::PipeRec> = snap.iter().filter(|p| p.tid == tid).collect();
            let mut idx = 0usize;
            for wk in &case.threads[t] {
                match wk {
                    Work::Spawn(i, o, e) => {
                        if let Some(p) = mine.get(idx) {
                            w.status.insert(p.ino);
                        }
                        let (o, e) = if *o == SK::Merge && *e == SK::Merge { (SK::Pipe, SK::Merge) } else { (*o, *e) };
                        let i = if *i == SK::Merge { SK::None } else { *i };
                        idx += 1 + [i, o, e].iter().filter(|k| **k == SK::Pipe).count();
                    }
                    Work::Pipeline(n) => {
                        let n = (*n).clamp(2, 4) as usize;
                        for k in 0..n {
                            if let Some(p) = mine.get(idx) {
                                w.status.insert(p.ino);
                            }
                            idx += if k + 1 < n { 2 } else { 1 };
                        }
                    }
                }
            }
        }
        for c in hang::my_children() {
            if proc_exe(c as u32).map(|e| e == helper_exe).unwrap_or(false) {
                if let Err(l) = audit_inflight(c as u32, &w) {
                    early = Some(l);
                    break;
                }
            }
        }
        if early.is_some() {
            break;
        }
        if (ip::real_now_ns() - t_start) / 1_000_000 > 20_000 {
            break;
        }
        ip::real_sleep_ms(2);
    }
    if early.is_some() || !handles.iter().all(|h| h.is_finished()) {
        // release whatever is blocked on the leaked ends
        SCHED_ON.store(false, SeqCst);
        hang::kill_children();
    }
    let stuck = !handles.iter().all(|h| h.is_finished()) && early.is_none();
    let mut results: Vec<ThreadResult> = vec![];
    let mut panicked = false;
    for h in handles {
        // after the children are gone every status pipe reaches EOF
        let t0 = ip::real_now_ns();
        while !h.is_finished() && (ip::real_now_ns() - t0) / 1_000_000 < 10_000 {
            hang::kill_children();
            ip::real_sleep_ms(5);
        }
        if !h.is_finished() {
            ip::YIELD_HOOK.store(0, SeqCst);
            ctx.inconclusive(format!("C08 concurrent: spawning thread stuck; case {:?}", case));
            std::process::exit(3);
        }
        match h.join() {
            Ok(r) => results.push(r),
            Err(_) => panicked = true,
        }
    }
    SCHED_ON.store(false, SeqCst);
    ip::YIELD_HOOK.store(0, SeqCst);
    ip::PIPE_REG_ON.store(false, SeqCst);
    let mut w = World { pipes: BTreeMap::new(), status: BTreeSet::new(), owner: BTreeMap::new(), capture: BTreeSet::new() };
    refresh_registry(&mut w, 0);
    let mut out: CaseResult = Ok(());
    if panicked {
        out = fail("panic", "a spawning thread panicked".into());
    }
    if let Some(l) = &early {
        out = fail(&format!("inflight-end-inherited:{}", l.kind), l.detail.clone());
    } else if stuck {
        out = fail("create-never-returns", "Popen::create on one thread did not return within 20 s although its own child had exec'ed (no leak found by the audit)".into());
    }
    let mut nchildren = 0;
    for r in &results {
        if let Some(e) = &r.error {
            out = fail("spawn-error", e.clone());
        }
        for s in &r.status_inodes {
            w.status.insert(*s);
        }
        if early.is_some() {
            nchildren += r.children.len();
            continue;
        }
        for (pid, inos) in &r.children {
            nchildren += 1;
            for (i, pw) in inos {
                w.owner.insert(*i, (*pid, *pw));
            }
        }
    }
    if out.is_ok() {
        'audit: for r in &results {
            for (pid, _) in &r.children {
                if let Err(l) = audit_child(*pid, &w, "concurrent") {
                    out = fail(&format!("inflight-end-inherited:{}", l.kind), l.detail);
                    break 'audit;
                }
            }
        }
    }
    let interleaved = case.schedule.windows(2).take(200).filter(|w| w[0] % nt as u8 != w[1] % nt as u8).count();
    if nchildren >= 2 {
        rep.nontrivial(format!("threads{}|children{}|switches{}", nt, nchildren.min(6), if interleaved == 0 { "0" } else if interleaved < 10 { "<10" } else { ">=10" }));
    }
    hang::kill_children();
    for r in results {
        for mut p in r.popens {
            drop(p.stdin.take());
            let _ = p.wait();
        }
    }
    reap_all();
    out
}

// ---------------------------------------------------------------------------

fn sk() -> impl Strategy<Value = SK> {
    prop_oneof![2 => Just(SK::None), 4 => Just(SK::Pipe), 1 => Just(SK::Merge)]
}

pub fn history_strategy() -> impl Strategy<Value = LeakCase> {
    let step = prop_oneof![
        8 => (sk(), sk(), sk()).prop_map(|(a, b, c)| Step::Spawn(a, b, c)),
        2 => (2u8..7, any::<bool>(), any::<bool>()).prop_map(|(n, a, b)| Step::PipelinePopen(n, a, b)),
        2 => (2u8..7).prop_map(Step::PipelineCommunicate),
        1 => (2u8..7, any::<bool>()).prop_map(|(n, a)| Step::PipelineStream(n, a)),
        2 => any::<bool>().prop_map(Step::SpawnToUserPipe),
        2 => (1u8..8).prop_map(Step::SpawnClosedStd),
        1 => Just(Step::SpawnBusyText),
        2 => (1u8..8, any::<bool>(), any::<bool>()).prop_map(|(m, a, b)| Step::DaemonPair(m, a, b)),
    ];
    (prop::collection::vec(step, 1..13), prop_oneof![7 => Just(false), 1 => Just(true)]).prop_map(|(steps, no_pipe2)| LeakCase { steps, no_pipe2 })
}

pub fn conc_strategy() -> impl Strategy<Value = ConcCase> {
    let work = prop_oneof![3 => (sk(), sk(), sk()).prop_map(|(a, b, c)| Work::Spawn(a, b, c)), 1 => (2u8..5).prop_map(Work::Pipeline)];
    (prop::collection::vec(prop::collection::vec(work, 1..4), 2..4), prop::collection::vec(0u8..3, 0..300)).prop_map(|(threads, schedule)| ConcCase { threads, schedule })
}

fn worker(ctx: &Ctx) {
    quiet_panics();
    let n = ctx.tier.pick(150, 3000);
    ctx.explore("real+registry", "c08-history", history_strategy(), n, 200, |c, rep| check_history(ctx, c, rep));
    let m = ctx.tier.pick(300, 5000);
    ctx.explore("real+scheduler", "c08-concurrent", conc_strategy(), m, 300, |c, rep| check_concurrent(ctx, c, rep));
}

fn replay(ctx: &Ctx, engine: &str, case: &Value) -> CaseResult {
    quiet_panics();
    let mut rep = CaseReport::default();
    if engine == "real+scheduler" {
        let c: ConcCase = serde_json::from_value(case.clone()).map_err(|e| Fail::new("bad-replay-file", e.to_string()))?;
        check_concurrent(ctx, &c, &mut rep)
    } else {
        let c: LeakCase = serde_json::from_value(case.clone()).map_err(|e| Fail::new("bad-replay-file", e.to_string()))?;
        check_history(ctx, &c, &mut rep)
    }
}

pub static C08: PropDef = PropDef {
    id: "C08",
    level: "exploration",
    rule: "two generators. (1) histories of 1..12 steps on one thread: spawn a helper child with a generated (stdin, stdout, stderr) in {None, Pipe, Merge}, Pipeline::popen / communicate / stream_stdin / stream_stdout with 2..6 stages, all earlier Popens, Communicators and adapters staying open; after every step the descriptor table of every live child is read from /proc. (2) 2..3 threads each creating 1..3 children under a cooperative scheduler hooked into every interposed call (pipe, fcntl, fork, read, close, waitpid), so the generated schedule owns the interleaving at system-call granularity and replays deterministically. Oracle: the interposed pipe() registers every pipe the library makes; in any child, a descriptor that points at a registered pipe must be one of fds 0-2, be the child-side end, not be a launch-status channel, not be the stderr-capture pipe's read end and not belong to a different child's Popen; only registered inodes are judged. When the tables are clean: closing the parent's stdin end makes a read-to-EOF child exit, and after killing a child the parent sees EOF on its stdout although unrelated children are alive. Non-trivial = at least two children alive simultaneously; distinct = distinct histories / schedules among those. Further steps: a launch that fails with ETXTBSY while earlier Popens are alive (the forked child must not sleep before giving up: it holds a copy of every descriptor of the parent); a daemon-style pair - with the parent's own descriptors closed a child with piped streams, whose parent ends land on 0-2, followed by a child with nothing redirected, whose table is audited. In an eighth of the histories pipe2() answers ENOSYS while pipe() works: a launch may give up with that error or must leave the children's tables as clean as ever.",
    assumptions: &["the scheduler's yield points sit at libc call boundaries (where descriptor state changes); preemption inside a system call is not modelled", "/proc/<pid>/fd of the children is read after Popen::create returned (exec has happened, close-on-exec applied)"],
    engines: "real",
    workers: |_| 16,
    worker,
    replay,
    exhaustive: false,
};
