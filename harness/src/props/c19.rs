//! C19: the printable command line is a faithful POSIX-shell quoting.
use crate::real::*;
use crate::runner::*;
use proptest::prelude::*;
use serde::{Deserialize, Serialize};
use serde_json::Value;
use std::ffi::OsStr;
use subprocess::{Exec, Pipeline};

#[derive(Clone, Debug, Serialize, Deserialize)]
pub struct QuoteCase {
    /// stages: each [program, args...]; one stage = Exec, more = Pipeline
    pub stages: Vec<Vec<String>>,
}

const BUILTINS: &[&str] = &[
    ".", ":", "[", "alias", "bg", "break", "cd", "chdir", "command", "continue", "echo", "eval", "exec", "exit", "export", "false", "fc", "fg", "getopts", "hash", "jobs", "kill", "local", "pwd", "printf", "read", "readonly", "return", "set", "shift", "test", "times", "trap", "true", "type", "ulimit", "umask", "unalias", "unset", "wait", "let", "source", "declare", "typeset", "history", "help", "logout", "mapfile", "popd", "pushd", "dirs", "shopt", "suspend", "bind", "builtin", "caller", "compgen", "complete", "compopt", "disown", "enable", "readarray",
];

/// Words the shell's grammar reserves in command position (POSIX, plus the ones bash
/// adds); a program may be called that, and then only quoting makes the shell run it.
const RESERVED: &[&str] = &["if", "then", "else", "elif", "fi", "do", "done", "case", "esac", "while", "until", "for", "in", "function", "time", "select", "coproc"];

fn word_strategy() -> impl Strategy<Value = String> {
    let ch = prop_oneof![
        6 => prop::sample::select("abcXYZ019".chars().collect::<Vec<_>>()),
        8 => prop::sample::select(" \t\n'\"$`\\*?[]~#=!&|;<>(){}%^@+:-_.,/".chars().collect::<Vec<_>>()),
        2 => prop::sample::select("\u{e9}\u{4e2d}\u{a0}\u{2003}\u{1f600}\u{7f}\u{1}\u{1b}".chars().collect::<Vec<_>>()),
        1 => any::<char>().prop_filter("no NUL", |c| *c != '\0'),
    ];
    prop_oneof![
        2 => Just(String::new()),
        10 => prop::collection::vec(ch, 1..12).prop_map(|v| v.into_iter().collect()),
        1 => Just("-n".to_string()),
        1 => Just("--".to_string()),
        1 => Just("a'b'c".to_string()),
        1 => Just("$HOME".to_string()),
        1 => Just("~".to_string()),
        // tilde expansion with a login name that exists
        1 => prop_oneof![Just("~root".to_string()), Just("~root/.profile".to_string()), Just("~daemon".to_string()), Just("~bin/x".to_string()), Just("a~root".to_string()), Just("~root~".to_string())],
        1 => Just("a=b".to_string()),
        // complete glob patterns made of otherwise harmless characters
        2 => ("[abXY01_.-]{0,3}", "[abcXYZ019]{1,3}", "[abXY01_.-]{0,3}").prop_map(|(a, b, c)| format!("{}[{}]{}", a, b, c)),
        1 => ("[abXY01_-]{0,3}", "[abXY01_.-]{0,3}").prop_map(|(a, c)| format!("{}*{}", a, c)),
        1 => ("[abXY01_-]{1,3}", "[abXY01_.-]{0,3}").prop_map(|(a, c)| format!("{}?{}", a, c)),
    ]
}

/// File names that a word would match if a shell took it for a glob pattern
/// (bait placed in the directory the rendering is evaluated in).
fn glob_bait(word: &str) -> Vec<String> {
    if !word.chars().any(|c| matches!(c, '*' | '?' | '[')) || word.contains('/') || word.contains('\0') {
        return vec![];
    }
    let mut out = vec![];
    // every bracket expression replaced by one of its members, ? by a letter, * by nothing / a letter
    for star in ["", "q"] {
        let mut cand = String::new();
        let cs: Vec<char> = word.chars().collect();
        let mut i = 0;
        while i < cs.len() {
            match cs[i] {
                '[' => {
                    if let Some(close) = cs[i + 1..].iter().position(|c| *c == ']').map(|p| p + i + 1) {
                        let inner: Vec<char> = cs[i + 1..close].iter().copied().filter(|c| !matches!(c, '!' | '^' | '-')).collect();
                        if let Some(m) = inner.first() {
                            cand.push(*m);
                            i = close + 1;
                            continue;
                        }
                    }
                    cand.push('[');
                }
                '?' => cand.push('q'),
                '*' => cand.push_str(star),
                c => cand.push(c),
            }
            i += 1;
        }
        if !cand.is_empty() && cand != word && cand != "." && cand != ".." && !cand.starts_with('.') && cand.len() < 200 && !out.contains(&cand) {
            out.push(cand);
        }
    }
    out
}

fn prog_strategy() -> impl Strategy<Value = String> {
    prop_oneof![12 => plain_prog_strategy(), 1 => prop::sample::select(RESERVED.to_vec()).prop_map(|s| s.to_string())]
}

fn plain_prog_strategy() -> impl Strategy<Value = String> {
    word_strategy().prop_map(|w| {
        let mut s: String = w.chars().filter(|c| *c != '/').collect();
        while s.len() > 200 {
            s.pop();
        }
        if s.is_empty() || s == "." || s == ".." || BUILTINS.contains(&s.as_str()) || RESERVED.contains(&s.as_str()) {
            s.push_str("_x");
        }
        // bash takes a command word that starts with % for a job specification (`%1` = fg %1),
        // quoted or not: like a builtin, such a name cannot be run by any rendering
        if s.starts_with('%') {
            s.insert(0, '_');
        }
        s
    })
}

fn stage_strategy() -> impl Strategy<Value = Vec<String>> {
    (prog_strategy(), prop::collection::vec(word_strategy(), 0..12)).prop_map(|(p, mut a)| {
        let mut v = vec![p];
        v.append(&mut a);
        v
    })
}

pub fn case_strategy() -> impl Strategy<Value = QuoteCase> {
    prop_oneof![
        3 => stage_strategy().prop_map(|s| QuoteCase { stages: vec![s] }),
        1 => prop::collection::vec(stage_strategy(), 2..5).prop_map(|stages| QuoteCase { stages }),
    ]
}

fn build_exec(stage: &[String]) -> Exec {
    let mut e = Exec::cmd(&stage[0]);
    for a in &stage[1..] {
        e = e.arg(a);
    }
    e
}

fn classes(case: &QuoteCase) -> Option<String> {
    let mut f: std::collections::BTreeSet<&'static str> = Default::default();
    for st in &case.stages {
        for (i, w) in st.iter().enumerate() {
            if w.is_empty() {
                f.insert("empty");
            }
            for c in w.chars() {
                match c {
                    ' ' | '\t' => {
                        f.insert("blank");
                    }
                    '\n' => {
                        f.insert("nl");
                    }
                    '\'' => {
                        f.insert("sq");
                    }
                    '"' => {
                        f.insert("dq");
                    }
                    '$' | '`' => {
                        f.insert("expand");
                    }
                    '\\' => {
                        f.insert("bs");
                    }
                    '*' | '?' | '[' | ']' => {
                        f.insert("glob");
                    }
                    '~' | '#' | '=' | '!' => {
                        f.insert("special");
                    }
                    '&' | '|' | ';' | '<' | '>' | '(' | ')' | '{' | '}' => {
                        f.insert("op");
                    }
                    c if !c.is_ascii() => {
                        f.insert("nonascii");
                    }
                    c if c.is_ascii_control() => {
                        f.insert("ctrl");
                    }
                    _ => {}
                }
            }
            if i > 0 && w.starts_with('-') {
                f.insert("dash");
            }
        }
    }
    if case.stages.len() > 1 {
        f.insert("pipeline");
    }
    let needs = f.iter().any(|k| *k != "dash" && *k != "pipeline");
    if needs {
        Some(f.into_iter().collect::<Vec<_>>().join("+"))
    } else {
        None
    }
}

fn run_shell(shell: &[&str], line: &str, path_dir: &std::path::Path) -> Result<Vec<Vec<Vec<u8>>>, String> {
    // the line is evaluated as a one-line script (`sh -c -n` would take a
    // rendering that starts with a dash for an option of the shell itself)
    let script = path_dir.join(".script");
    std::fs::write(&script, format!("{}\n", line)).map_err(|e| e.to_string())?;
    let out = std::process::Command::new(shell[0])
        .args(&shell[1..])
        .arg(&script)
        .env_clear()
        .env("PATH", path_dir)
        .current_dir(path_dir)
        .stdin(std::process::Stdio::null())
        .output()
        .map_err(|e| format!("cannot run {}: {}", shell[0], e))?;
    let text = String::from_utf8_lossy(&out.stdout);
    let mut res = vec![];
    for l in text.lines() {
        let argv: Vec<Vec<u8>> = l.split(' ').map(|w| if w == "-" { vec![] } else { unhex(w) }).collect();
        res.push(argv);
    }
    if !out.status.success() || res.is_empty() {
        return Err(format!("shell exit {:?}, stderr: {}", out.status.code(), String::from_utf8_lossy(&out.stderr).trim()));
    }
    Ok(res)
}

pub fn check_case(ctx: &Ctx, case: &QuoteCase, rep: &mut CaseReport, shells: &[&[&str]]) -> CaseResult {
    if let Some(c) = classes(case) {
        rep.nontrivial(c);
    }
    let sc = Scratch::new(&ctx.scratch, "c19");
    set_mode(&sc.dir, "argvhexcat", &[]);
    for st in &case.stages {
        link_vchild(&sc.dir, OsStr::new(&st[0]));
    }
    // glob bait: if a rendering leaves a pattern unquoted the shell expands it to these names
    for w in case.stages.iter().flatten() {
        for b in glob_bait(w) {
            let p = sc.dir.join(&b);
            if !p.exists() {
                let _ = std::fs::write(&p, b"");
            }
        }
    }
    let renderings: Vec<String> = case.stages.iter().map(|s| build_exec(s).to_cmdline_lossy()).collect();
    let line = if case.stages.len() == 1 {
        let e = build_exec(&case.stages[0]);
        let dbg = format!("{:?}", e);
        let inner = dbg.strip_prefix("Exec { ").and_then(|s| s.strip_suffix(" }")).map(|s| s.to_string());
        match inner {
            Some(i) if i == renderings[0] => i,
            other => return Err(Fail::new("C19:debug-format", format!("Debug output {:?} is not `Exec {{ <cmdline> }}` (inner {:?}, to_cmdline_lossy {:?})", dbg, other, renderings[0]))),
        }
    } else {
        let mut it = case.stages.iter();
        let mut p: Pipeline = build_exec(it.next().unwrap()) | build_exec(it.next().unwrap());
        for s in it {
            p = p | build_exec(s);
        }
        let dbg = format!("{:?}", p);
        let inner = dbg.strip_prefix("Pipeline { ").and_then(|s| s.strip_suffix(" }")).map(|s| s.to_string());
        let want = renderings.join(" | ");
        match inner {
            Some(i) if i == want => i,
            other => return Err(Fail::new("C19:pipeline-format", format!("Debug output {:?}: stages not joined in order by ` | ` (inner {:?}, expected {:?})", dbg, other, want))),
        }
    };
    let want: Vec<Vec<Vec<u8>>> = case.stages.iter().map(|s| s.iter().map(|w| w.as_bytes().to_vec()).collect()).collect();
    for sh in shells {
        match run_shell(sh, &line, &sc.dir) {
            Ok(got) => {
                if got != want {
                    let kind = if want.iter().flatten().any(|w| w.is_empty()) && got.iter().map(|g| g.len()).sum::<usize>() < want.iter().map(|g| g.len()).sum::<usize>() {
                        "empty-argument-dropped"
                    } else if got.len() != want.len() {
                        "stage-count"
                    } else {
                        "argv-differs"
                    };
                    return Err(Fail::new(
                        format!("C19:{}", kind),
                        format!("shell {:?} evaluating {:?}\n  got  {:?}\n  want {:?}", sh, line, got.iter().map(|a| a.iter().map(|w| String::from_utf8_lossy(w).into_owned()).collect::<Vec<_>>()).collect::<Vec<_>>(), case.stages),
                    ));
                }
            }
            Err(e) => {
                return Err(Fail::new("C19:shell-error", format!("shell {:?} evaluating {:?}: {}\n  original {:?}", sh, line, e, case.stages)));
            }
        }
    }
    Ok(())
}

fn worker(ctx: &Ctx) {
    let n = ctx.tier.pick(2500, 60_000);
    let dash: &[&str] = &["/bin/sh"];
    let bash: &[&str] = &["/bin/bash", "--posix"];
    let shells: Vec<&[&str]> = if ctx.tier == Tier::Thorough { vec![dash, bash] } else { vec![dash] };
    ctx.explore("real-sh", "c19", case_strategy(), n, 600, |c, rep| check_case(ctx, c, rep, &shells));
}

fn replay(ctx: &Ctx, _engine: &str, case: &Value) -> CaseResult {
    let c: QuoteCase = serde_json::from_value(case.clone()).map_err(|e| Fail::new("bad-replay-file", e.to_string()))?;
    for s in &c.stages {
        println!("stage {:?} -> {}", s, build_exec(s).to_cmdline_lossy());
    }
    let mut rep = CaseReport::default();
    check_case(ctx, &c, &mut rep, &[&["/bin/sh"], &["/bin/bash", "--posix"]])
}

pub static C19: PropDef = PropDef {
    id: "C19",
    level: "exploration",
    rule: "proptest generates a program name (non-empty, no slash, not a shell builtin; the shell's reserved words are included as program names) and 0..11 arguments over Unicode without NUL, weighted to the empty string, blanks, tab, newline, both quotes, $ ` \\ * ? [ ] ~ # = ! & | ; < > ( ) { }, leading dashes, control and non-ASCII characters; complete glob patterns ([..], *, ?) made of otherwise harmless characters; 1 stage (Exec) or 2..4 stages (Pipeline). For every word that would be a glob pattern, files it would match are placed in the directory of evaluation. The Debug text / to_cmdline_lossy is evaluated by a real shell (`sh <script>`, = dash; thorough also `bash --posix <script>`) with PATH pointing at a scratch directory in which each program name is a hard link of the helper that prints its argv in hex after copying its stdin; the recorded vectors, in pipeline order, must equal the originals. Non-trivial = some word needs quoting or is empty; distinct = distinct cases among those. Words of the form ~user for existing login names are included; names starting with % are excluded (bash takes them for job specifications, quoted or not).",
    assumptions: &["dash (and bash --posix in thorough) stand for `a POSIX shell`", "environment rendering is out of scope (env left unset)"],
    engines: "real",
    workers: |_| 16,
    worker,
    replay,
    exhaustive: false,
};
