//! C16: Exec builder calls compose like edits on a plain command description.
use crate::props::c0104::{quiet_panics, PANIC_MSG};
use crate::real::*;
use crate::runner::*;
use proptest::prelude::*;
use serde::{Deserialize, Serialize};
use serde_json::Value;
use std::collections::BTreeMap;
use std::ffi::OsStr;
use std::io::{Read, Write};
use std::os::unix::ffi::OsStrExt;
use std::os::unix::io::AsRawFd;
use std::panic::{catch_unwind, AssertUnwindSafe};
use std::path::PathBuf;
use subprocess::{Exec, NullFile, Redirection};

type Bytes = Vec<u8>;

#[derive(Clone, Debug, PartialEq, Serialize, Deserialize)]
pub enum InKind {
    None,
    Pipe,
    File,
    Null,
    Data(Bytes),
    Merge,
}
#[derive(Clone, Copy, Debug, PartialEq, Serialize, Deserialize)]
pub enum OutKind {
    None,
    Pipe,
    File,
    Null,
    Merge,
}
#[derive(Clone, Debug, PartialEq, Serialize, Deserialize)]
pub enum BOp {
    Arg(Bytes),
    Args(Vec<Bytes>),
    Env(Bytes, Bytes),
    EnvExtend(Vec<(Bytes, Bytes)>),
    EnvRemove(Bytes),
    EnvClear,
    Cwd(u8),
    Stdin(InKind),
    Stdout(OutKind),
    Stderr(OutKind),
    Detached,
    /// clone; keep editing the original, run the copy as it is now
    CloneKeepOriginal,
    /// clone; keep editing the copy, run the original as it is now
    CloneKeepCopy,
}
#[derive(Clone, Copy, Debug, PartialEq, Serialize, Deserialize)]
pub enum Term {
    Popen,
    Join,
    Capture,
    Communicate,
    StreamStdin,
    StreamStdout,
    StreamStderr,
    /// popen(), then drop the Popen while the child is still running: the
    /// drop waits for the child unless the command was marked detached()
    PopenDrop,
}
#[derive(Clone, Debug, Serialize, Deserialize)]
pub struct BuilderCase {
    /// Some(s): start from Exec::shell(s) instead of Exec::cmd(helper)
    pub shell: Option<Bytes>,
    pub ops: Vec<BOp>,
    pub term: Term,
}

// ---------------------------------------------------------------------------
// The model (a plain command description)
// ---------------------------------------------------------------------------

#[derive(Clone, Debug, PartialEq)]
enum SKind {
    None,
    Pipe,
    File,
    Null,
    Merge,
}

#[derive(Clone, Debug)]
struct Model {
    args: Vec<Bytes>,
    /// None = inherit
    env: Option<BTreeMap<Bytes, Bytes>>,
    cwd: Option<u8>,
    stdin: SKind,
    stdin_data: Option<Bytes>,
    stdout: SKind,
    stderr: SKind,
    detached: bool,
}

fn parent_env() -> BTreeMap<Bytes, Bytes> {
    std::env::vars_os().map(|(k, v)| (k.as_bytes().to_vec(), v.as_bytes().to_vec())).collect()
}

impl Model {
    fn ensure_env(&mut self) {
        if self.env.is_none() {
            self.env = Some(parent_env());
        }
    }
    /// Apply one builder call; Err = the call must be refused (panic).
    fn apply(&mut self, op: &BOp) -> Result<(), &'static str> {
        match op {
            BOp::Arg(a) => self.args.push(a.clone()),
            BOp::Args(v) => self.args.extend(v.iter().cloned()),
            BOp::Env(k, v) => {
                self.ensure_env();
                self.env.as_mut().unwrap().insert(k.clone(), v.clone());
            }
            BOp::EnvExtend(v) => {
                self.ensure_env();
                for (k, val) in v {
                    self.env.as_mut().unwrap().insert(k.clone(), val.clone());
                }
            }
            BOp::EnvRemove(k) => {
                self.ensure_env();
                self.env.as_mut().unwrap().remove(k);
            }
            BOp::EnvClear => self.env = Some(BTreeMap::new()),
            BOp::Cwd(d) => self.cwd = Some(*d),
            BOp::Stdin(k) => {
                let new = match k {
                    InKind::None => SKind::None,
                    InKind::Pipe => SKind::Pipe,
                    InKind::File => SKind::File,
                    InKind::Null => SKind::Null,
                    InKind::Data(_) => SKind::Pipe,
                    InKind::Merge => return Err("merge is not valid for stdin"),
                };
                let is_data = matches!(k, InKind::Data(_));
                if self.stdin == SKind::None && self.stdin_data.is_none() {
                    self.stdin = new;
                    if let InKind::Data(d) = k {
                        self.stdin_data = Some(d.clone());
                    }
                } else if self.stdin == SKind::Pipe && new == SKind::Pipe && !is_data {
                    // Pipe after Pipe is a no-op
                } else {
                    return Err("stdin set twice");
                }
            }
            BOp::Stdout(k) | BOp::Stderr(k) => {
                let new = match k {
                    OutKind::None => SKind::None,
                    OutKind::Pipe => SKind::Pipe,
                    OutKind::File => SKind::File,
                    OutKind::Null => SKind::Null,
                    OutKind::Merge => SKind::Merge,
                };
                let slot = if matches!(op, BOp::Stdout(_)) { &mut self.stdout } else { &mut self.stderr };
                if *slot == SKind::None {
                    *slot = new;
                } else if *slot == SKind::Pipe && new == SKind::Pipe {
                } else {
                    return Err("output stream set twice");
                }
            }
            BOp::Detached => self.detached = true,
            BOp::CloneKeepOriginal | BOp::CloneKeepCopy => {}
        }
        Ok(())
    }
    /// What the terminator does to the description; Err = must be refused.
    fn terminate(&mut self, t: Term) -> Result<(), &'static str> {
        let data = self.stdin_data.is_some();
        match t {
            Term::Popen | Term::Join | Term::PopenDrop => {
                if data {
                    return Err("input data given to a terminator that cannot deliver it");
                }
            }
            Term::StreamStdin => {
                if data {
                    return Err("input data with stream_stdin");
                }
                self.apply(&BOp::Stdin(InKind::Pipe))?;
            }
            Term::StreamStdout => {
                if data {
                    return Err("input data with stream_stdout");
                }
                self.apply(&BOp::Stdout(OutKind::Pipe))?;
            }
            Term::StreamStderr => {
                if data {
                    return Err("input data with stream_stderr");
                }
                self.apply(&BOp::Stderr(OutKind::Pipe))?;
            }
            Term::Capture | Term::Communicate => {
                if self.stdout == SKind::None && self.stderr == SKind::None {
                    self.stdout = SKind::Pipe;
                }
            }
        }
        Ok(())
    }
}

// ---------------------------------------------------------------------------
// Execution
// ---------------------------------------------------------------------------

struct Env<'a> {
    sc: &'a Scratch,
    helper: PathBuf,
    dirs: Vec<PathBuf>,
    file_content: Vec<u8>,
    run_no: std::cell::Cell<u32>,
}

struct Files {
    stdin_file: Option<(u64, u64)>,
    stdout_file: Option<(u64, u64)>,
    stderr_file: Option<(u64, u64)>,
}

fn apply_real(e: Exec, op: &BOp, env: &Env, files: &mut Files) -> Exec {
    let os = |b: &Bytes| OsStr::from_bytes(b).to_owned();
    match op {
        BOp::Arg(a) => e.arg(os(a)),
        BOp::Args(v) => {
            let v: Vec<_> = v.iter().map(os).collect();
            e.args(&v)
        }
        BOp::Env(k, v) => e.env(os(k), os(v)),
        BOp::EnvExtend(v) => {
            let v: Vec<_> = v.iter().map(|(k, v)| (os(k), os(v))).collect();
            e.env_extend(&v)
        }
        BOp::EnvRemove(k) => e.env_remove(os(k)),
        BOp::EnvClear => e.env_clear(),
        BOp::Cwd(d) => e.cwd(&env.dirs[*d as usize % env.dirs.len()]),
        BOp::Stdin(k) => match k {
            InKind::None => e.stdin(Redirection::None),
            InKind::Pipe => e.stdin(Redirection::Pipe),
            InKind::Merge => e.stdin(Redirection::Merge),
            InKind::Null => e.stdin(NullFile),
            InKind::Data(d) => e.stdin(d.clone()),
            InKind::File => {
                let n = env.run_no.get();
                env.run_no.set(n + 1);
                let p = env.sc.path(&format!("in.{}", n));
                std::fs::write(&p, &env.file_content).unwrap();
                let f = std::fs::File::open(&p).unwrap();
                files.stdin_file = Some(fd_ident(f.as_raw_fd()));
                e.stdin(f)
            }
        },
        BOp::Stdout(k) | BOp::Stderr(k) => {
            let is_out = matches!(op, BOp::Stdout(_));
            let set = |e: Exec, r: Redirection| if is_out { e.stdout(r) } else { e.stderr(r) };
            match k {
                OutKind::None => set(e, Redirection::None),
                OutKind::Pipe => set(e, Redirection::Pipe),
                OutKind::Merge => set(e, Redirection::Merge),
                OutKind::Null => {
                    if is_out {
                        e.stdout(NullFile)
                    } else {
                        e.stderr(NullFile)
                    }
                }
                OutKind::File => {
                    let n = env.run_no.get();
                    env.run_no.set(n + 1);
                    let p = env.sc.path(&format!("out.{}", n));
                    let f = std::fs::File::create(&p).unwrap();
                    let id = fd_ident(f.as_raw_fd());
                    if is_out {
                        files.stdout_file = Some(id);
                    } else {
                        files.stderr_file = Some(id);
                    }
                    set(e, Redirection::File(f))
                }
            }
        }
        BOp::Detached => e.detached(),
        BOp::CloneKeepOriginal | BOp::CloneKeepCopy => e,
    }
}

/// Run a finished Exec with a terminator; returns Err(panic message) or the report.
/// Drop a Popen whose child stays alive until `release` exists and decide
/// whether the drop waited for the child.
fn ip_now() -> i64 {
    crate::interpose::real_now_ns() / 1_000_000
}

fn drop_observe(p: subprocess::Popen, release: &std::path::Path, expect_detached: bool) -> Result<(), String> {
    use std::sync::atomic::{AtomicBool, AtomicI32, Ordering::SeqCst};
    use std::sync::Arc;
    let pid = p.pid();
    let done = Arc::new(AtomicBool::new(false));
    let tid = Arc::new(AtomicI32::new(0));
    let (d2, t2) = (Arc::clone(&done), Arc::clone(&tid));
    let h = std::thread::spawn(move || {
        t2.store(unsafe { libc::syscall(libc::SYS_gettid) } as i32, SeqCst);
        drop(p);
        d2.store(true, SeqCst);
    });
    let child_there = |pid: u32| -> bool { matches!(proc_state(pid), Some(c) if c != 'Z' && c != 'X') };
    let mut verdict = Ok(());
    if expect_detached {
        // must come back although the child keeps running; a dropping thread seen
        // blocked in wait4 (syscall 61) on two looks 100 ms apart is waiting for it
        let mut first_seen: Option<i64> = None;
        let t0 = ip_now();
        while !done.load(SeqCst) && ip_now() - t0 < 10_000 {
            let t = tid.load(SeqCst);
            let sc = if t != 0 { std::fs::read_to_string(format!("/proc/self/task/{}/syscall", t)).unwrap_or_default() } else { String::new() };
            if sc.starts_with("61 ") {
                match first_seen {
                    None => first_seen = Some(ip_now()),
                    Some(f) if ip_now() - f >= 100 => {
                        verdict = Err(format!("drop: the command is detached but dropping its Popen waits for the child (dropping thread blocked in wait4, child {:?} alive: {})", pid, pid.map(child_there).unwrap_or(false)));
                        break;
                    }
                    _ => {}
                }
            } else {
                first_seen = None;
            }
            crate::interpose::real_sleep_ms(10);
        }
    } else {
        // a drop that does not wait is back at once; 60 ms without it means it waits
        wait_until(60, || done.load(SeqCst));
        if done.load(SeqCst) {
            if let Some(pid) = pid {
                if child_there(pid) && !release.exists() {
                    verdict = Err(format!("drop: the command is not detached but dropping its Popen returned while the child (pid {}) was still running", pid));
                }
            }
        }
    }
    let _ = std::fs::write(release, b"go");
    let _ = h.join();
    if let Some(pid) = pid {
        // a detached child is ours to reap
        wait_until(10_000, || !child_there(pid));
    }
    verdict
}

fn run_term(e: Exec, t: Term, prefix: &std::path::Path, detached: bool) -> Result<Option<Report>, String> {
    PANIC_MSG.with(|m| *m.borrow_mut() = None);
    let release = std::path::PathBuf::from(format!("{}.release", prefix.display()));
    let r = catch_unwind(AssertUnwindSafe(|| -> Result<(), String> {
        match t {
            Term::PopenDrop => {
                let mut p = e.popen().map_err(|e| e.to_string())?;
                drop(p.stdin.take());
                drop(p.stdout.take());
                drop(p.stderr.take());
                drop_observe(p, &release, detached)?;
            }
            Term::Popen => {
                let mut p = e.popen().map_err(|e| e.to_string())?;
                drop(p.stdin.take());
                let mut sink = vec![];
                if let Some(mut o) = p.stdout.take() {
                    let _ = o.read_to_end(&mut sink);
                }
                if let Some(mut o) = p.stderr.take() {
                    let _ = o.read_to_end(&mut sink);
                }
                p.wait().map_err(|e| e.to_string())?;
            }
            Term::Join => {
                e.join().map_err(|e| e.to_string())?;
            }
            Term::Capture => {
                e.capture().map_err(|e| e.to_string())?;
            }
            Term::Communicate => {
                let mut c = e.communicate().map_err(|e| e.to_string())?;
                c.read().map_err(|e| e.to_string())?;
            }
            Term::StreamStdin => {
                let mut w = e.stream_stdin().map_err(|e| e.to_string())?;
                let _ = w.flush();
                drop(w);
            }
            Term::StreamStdout => {
                let mut r = e.stream_stdout().map_err(|e| e.to_string())?;
                let mut sink = vec![];
                let _ = r.read_to_end(&mut sink);
            }
            Term::StreamStderr => {
                let mut r = e.stream_stderr().map_err(|e| e.to_string())?;
                let mut sink = vec![];
                let _ = r.read_to_end(&mut sink);
            }
        }
        Ok(())
    }));
    match r {
        Err(_) => Err(PANIC_MSG.with(|m| m.borrow_mut().take()).unwrap_or_else(|| "panic".into())),
        Ok(Err(e)) if e.starts_with("drop: ") => Err(e),
        Ok(Err(e)) => Err(format!("error: {}", e)),
        // a non-detached child has exited by the time the terminator returns: its report is there
        Ok(Ok(())) => Ok(read_reports(prefix, 1, if t == Term::Communicate || detached { 10_000 } else { 1_000 }).into_iter().next()),
    }
}

/// Puts the harness's own environment back when the case is over.
struct RestoreEnv(Vec<(Bytes, Option<std::ffi::OsString>)>);
impl Drop for RestoreEnv {
    fn drop(&mut self) {
        for (k, old) in self.0.drain(..) {
            let name = OsStr::from_bytes(&k);
            match old {
                Some(v) => std::env::set_var(name, v),
                None => std::env::remove_var(name),
            }
        }
    }
}

fn fnv64(d: &[u8]) -> u64 {
    let mut h: u64 = 0xcbf29ce484222325;
    for b in d {
        h ^= *b as u64;
        h = h.wrapping_mul(0x100000001b3);
    }
    h
}

fn compare(m: &Model, rep: &Report, env: &Env, files: &Files, argv0: &Bytes, which: &str, consumed: &mut Vec<(u64, u64)>) -> CaseResult {
    let fail = |sig: &str, msg: String| Err(Fail::new(format!("C16:{}", sig), format!("[{}] {}", which, msg)));
    // argv
    let mut want = vec![argv0.clone()];
    want.extend(m.args.iter().cloned());
    let got = rep.argv_bytes();
    if got != want {
        return fail("argv", format!("argv seen by the child {:?} differs from the model {:?}", got.iter().map(|a| String::from_utf8_lossy(a).into_owned()).collect::<Vec<_>>(), want.iter().map(|a| String::from_utf8_lossy(a).into_owned()).collect::<Vec<_>>()));
    }
    // environment
    let want_env: BTreeMap<Bytes, Bytes> = match &m.env {
        None => parent_env(),
        Some(e) => e.clone(),
    };
    let mut got_env: BTreeMap<Bytes, Bytes> = BTreeMap::new();
    let raw = rep.env_bytes();
    for ent in &raw {
        let pos = ent.iter().position(|b| *b == b'=').unwrap_or(ent.len());
        let (k, v) = (ent[..pos].to_vec(), if pos < ent.len() { ent[pos + 1..].to_vec() } else { vec![] });
        if got_env.insert(k.clone(), v).is_some() {
            return fail("env-duplicate", format!("variable {:?} appears twice in the child's environment", String::from_utf8_lossy(&k)));
        }
    }
    if got_env != want_env {
        let mut diff = vec![];
        for (k, v) in &want_env {
            match got_env.get(k) {
                None => diff.push(format!("missing {}={}", String::from_utf8_lossy(k), String::from_utf8_lossy(v))),
                Some(g) if g != v => diff.push(format!("{}: got {:?}, model {:?}", String::from_utf8_lossy(k), String::from_utf8_lossy(g), String::from_utf8_lossy(v))),
                _ => {}
            }
        }
        for (k, v) in &got_env {
            if !want_env.contains_key(k) {
                diff.push(format!("unexpected {}={}", String::from_utf8_lossy(k), String::from_utf8_lossy(v)));
            }
        }
        let kind = if diff.iter().any(|d| d.starts_with("unexpected")) { "env-unexpected" } else if diff.iter().any(|d| d.starts_with("missing")) { "env-missing" } else { "env-value" };
        return fail(kind, diff.join("; "));
    }
    // cwd
    let want_dir = match m.cwd {
        Some(d) => env.dirs[d as usize % env.dirs.len()].clone(),
        None => std::env::current_dir().unwrap(),
    };
    let c = std::ffi::CString::new(want_dir.as_os_str().as_bytes()).unwrap();
    let mut st: libc::stat = unsafe { std::mem::zeroed() };
    unsafe { libc::stat(c.as_ptr(), &mut st) };
    if (rep.cwd_dev, rep.cwd_ino) != (st.st_dev as u64, st.st_ino as u64) {
        return fail("cwd", format!("child cwd {:?}, model {:?}", String::from_utf8_lossy(&unhex(&rep.cwd)), want_dir));
    }
    // stdin content
    let want_in: Vec<u8> = match (&m.stdin, &m.stdin_data) {
        (_, Some(d)) => d.clone(),
        (SKind::File, _) => {
            // a cloned Exec shares the open file (File::try_clone = dup, documented):
            // whoever runs first consumes it
            let id = files.stdin_file.unwrap_or((0, 0));
            if consumed.contains(&id) {
                vec![]
            } else {
                consumed.push(id);
                env.file_content.clone()
            }
        }
        _ => vec![],
    };
    if let (Some(l), Some(h)) = (rep.stdin_len, rep.stdin_fnv) {
        if l != want_in.len() as u64 || h != fnv64(&want_in) {
            return fail("stdin-data", format!("child read {} bytes from stdin (fnv {:x}); model: {} bytes (fnv {:x})", l, h, want_in.len(), fnv64(&want_in)));
        }
    }
    // stream kinds
    let null_id = {
        let f = std::fs::File::open("/dev/null").unwrap();
        fd_ident(f.as_raw_fd())
    };
    for (i, (k, fid)) in [(&m.stdin, files.stdin_file), (&m.stdout, files.stdout_file), (&m.stderr, files.stderr_file)].iter().enumerate() {
        let fi = &rep.fds[i];
        let id = (fi.dev, fi.ino);
        let ok = match k {
            SKind::None => id == fd_ident(i as i32),
            SKind::Pipe => fi.fmt == libc::S_IFIFO,
            SKind::File => Some(id) == *fid,
            SKind::Null => id == null_id,
            SKind::Merge => rep.same12,
        };
        if !ok {
            return fail("stream-kind", format!("child fd {} is {:?} (fmt {:o}), model says {:?}", i, id, fi.fmt, k));
        }
    }
    Ok(())
}

pub fn check_case(ctx: &Ctx, case: &BuilderCase, rep: &mut CaseReport) -> CaseResult {
    let sc = Scratch::new(&ctx.scratch, "c16");
    let bindir = sc.subdir("bin");
    let helper = link_vchild(&bindir, OsStr::new("helper"));
    link_vchild(&bindir, OsStr::new("sh"));
    let env = Env { sc: &sc, helper: helper.clone(), dirs: vec![sc.subdir("d0"), sc.subdir("d1"), sc.subdir("d2")], file_content: b"file-content-0123456789\n".repeat(40), run_no: std::cell::Cell::new(0) };
    let old_path = std::env::var_os("PATH");
    if case.shell.is_some() {
        std::env::set_var("PATH", &bindir);
    }
    let result = (|| -> CaseResult {
        // start
        let (mut exec, argv0, mut model) = match &case.shell {
            Some(s) => (Exec::shell(OsStr::from_bytes(s)), b"sh".to_vec(), Model { args: vec![b"-c".to_vec(), s.clone()], env: None, cwd: None, stdin: SKind::None, stdin_data: None, stdout: SKind::None, stderr: SKind::None, detached: false }),
            None => (Exec::cmd(&env.helper), env.helper.as_os_str().as_bytes().to_vec(), Model { args: vec![], env: None, cwd: None, stdin: SKind::None, stdin_data: None, stdout: SKind::None, stderr: SKind::None, detached: false }),
        };
        let mut files = Files { stdin_file: None, stdout_file: None, stderr_file: None };
        let mut side: Vec<(Exec, Model, (Option<(u64, u64)>, Option<(u64, u64)>, Option<(u64, u64)>))> = vec![];
        let detached_any = case.ops.iter().any(|o| matches!(o, BOp::Detached));
        let mut kinds: std::collections::BTreeSet<&'static str> = Default::default();
        let mut removed: Vec<Bytes> = vec![];
        let mut cleared = false;
        let mut cloned = false;
        let mut seen_keys: Vec<Bytes> = vec![];
        for (i, op) in case.ops.iter().enumerate() {
            // interaction kinds for the non-trivial rule
            match op {
                BOp::Env(k, _) => {
                    if removed.contains(k) {
                        kinds.insert("remove-then-set");
                    }
                    if seen_keys.contains(k) {
                        kinds.insert("dup-name");
                    }
                    if cleared {
                        kinds.insert("clear-then-set");
                    }
                    seen_keys.push(k.clone());
                }
                BOp::EnvExtend(v) => {
                    for (k, _) in v {
                        if removed.contains(k) {
                            kinds.insert("remove-then-set");
                        }
                        if seen_keys.contains(k) {
                            kinds.insert("dup-name");
                        }
                        seen_keys.push(k.clone());
                    }
                    if cleared {
                        kinds.insert("clear-then-extend");
                    }
                }
                BOp::EnvRemove(k) => removed.push(k.clone()),
                BOp::EnvClear => cleared = true,
                _ => {
                    if cloned && !matches!(op, BOp::CloneKeepCopy | BOp::CloneKeepOriginal) {
                        kinds.insert("edit-after-clone");
                    }
                }
            }
            if matches!(op, BOp::CloneKeepOriginal | BOp::CloneKeepCopy) {
                cloned = true;
                let copy = match catch_unwind(AssertUnwindSafe(|| exec.clone())) {
                    Ok(c) => c,
                    Err(_) => return Err(Fail::new("C16:clone-panicked", format!("op #{} clone() panicked", i))),
                };
                let fids = (files.stdin_file, files.stdout_file, files.stderr_file);
                if matches!(op, BOp::CloneKeepOriginal) {
                    side.push((copy, model.clone(), fids));
                } else {
                    side.push((std::mem::replace(&mut exec, copy), model.clone(), fids));
                }
                continue;
            }
            let expect = model.apply(op);
            PANIC_MSG.with(|m| *m.borrow_mut() = None);
            let got = catch_unwind(AssertUnwindSafe(|| apply_real(exec, op, &env, &mut files)));
            match (expect, got) {
                (Ok(()), Ok(e)) => exec = e,
                (Err(why), Err(_)) => {
                    kinds.insert("refused-setting");
                    rep.nontrivial(format!("{}|term:-", kinds.iter().cloned().collect::<Vec<_>>().join("+")));
                    let _ = why;
                    return Ok(());
                }
                (Ok(()), Err(_)) => {
                    let msg = PANIC_MSG.with(|m| m.borrow_mut().take()).unwrap_or_default();
                    return Err(Fail::new("C16:unexpected-panic", format!("op #{} {:?} panicked ({}) but the model accepts it", i, op, msg)));
                }
                (Err(why), Ok(_)) => {
                    return Err(Fail::new("C16:silent-override", format!("op #{} {:?} was accepted although it must be refused: {}", i, op, why)));
                }
            }
        }
        // side copies are run with popen-like terminator `Join` (no data) or Capture (data)
        let mut runs: Vec<(Exec, Model, Term, Files, String)> = vec![];
        for (n, (e, m, fids)) in side.into_iter().enumerate() {
            let t = if m.stdin_data.is_some() {
                Term::Capture
            } else if m.detached || n % 2 == 1 {
                // does the copy still know whether it is detached?
                Term::PopenDrop
            } else if m.stdin == SKind::Pipe {
                Term::StreamStdin
            } else {
                Term::Join
            };
            runs.push((e, m, t, Files { stdin_file: fids.0, stdout_file: fids.1, stderr_file: fids.2 }, format!("clone#{}", n)));
        }
        runs.push((exec, model, case.term, files, "main".into()));
        let nruns = runs.len();
        // "removed names are absent unless set again": between the builder calls and
        // the terminator the parent process itself sets every name that a builder
        // call removed and none set again; the description is a copy, so the child
        // must still not see it
        let mut parent_sets: Vec<(Bytes, Option<std::ffi::OsString>)> = vec![];
        for op in &case.ops {
            if let BOp::EnvRemove(k) = op {
                let usable = !k.is_empty() && !k.contains(&b'=') && !k.contains(&0) && k.as_slice() != b"PATH";
                let absent_everywhere = runs.iter().all(|(_, m, _, _, _)| m.env.as_ref().map(|e| !e.contains_key(k)).unwrap_or(true));
                let edited_somewhere = runs.iter().any(|(_, m, _, _, _)| m.env.is_some());
                if usable && absent_everywhere && edited_somewhere && !parent_sets.iter().any(|(n, _)| n == k) {
                    let name = OsStr::from_bytes(k);
                    parent_sets.push((k.clone(), std::env::var_os(name)));
                    std::env::set_var(name, "set-in-the-parent-after-the-removal");
                }
            }
        }
        let _restore = RestoreEnv(parent_sets);
        let mut consumed: Vec<(u64, u64)> = vec![];
        for (n, (e, mut m, t, files, which)) in runs.into_iter().enumerate() {
            let prefix = sc.path(&format!("rep{}", n));
            let ps = prefix.to_string_lossy().into_owned();
            if t == Term::PopenDrop {
                let rel = format!("{}.release", ps);
                set_mode(&bindir, "report", &[&ps, "0", "readstdin", &rel]);
            } else {
                set_mode(&bindir, "report", &[&ps, "0", "readstdin"]);
            }
            let expect = m.terminate(t);
            let run_detached = if t == Term::PopenDrop { m.detached } else { detached_any };
            let (got, deadlock) = crate::hang::guard(|| run_term(e, t, &prefix, run_detached));
            reap_all();
            if let Some(d) = deadlock {
                return Err(Fail::new("C16:terminator-hangs", format!("[{}] terminator {:?} never returns (model: {}): {}", which, t, if expect.is_err() { "must be refused" } else { "runs" }, d)));
            }
            match (expect, got) {
                (Err(_), Err(msg)) if !msg.starts_with("error:") => {
                    kinds.insert("refused-terminator");
                }
                (Err(why), other) => {
                    return Err(Fail::new("C16:terminator-not-refused", format!("[{}] {:?} must be refused ({}), got {:?}", which, t, why, other.map(|r| r.is_some()))));
                }
                (Ok(()), Err(msg)) if msg.starts_with("drop: ") => {
                    return Err(Fail::new(if m.detached { "C16:detached-lost" } else { "C16:drop-did-not-wait" }, format!("[{}] {}", which, msg)));
                }
                (Ok(()), Err(msg)) => {
                    return Err(Fail::new(if msg.starts_with("error:") { "C16:unexpected-error" } else { "C16:unexpected-panic" }, format!("[{}] terminator {:?}: {}", which, t, msg)));
                }
                (Ok(()), Ok(None)) => {
                    return Err(Fail::new("C16:no-report", format!("[{}] terminator {:?} returned but the command left no report (did it run?)", which, t)));
                }
                (Ok(()), Ok(Some(r))) => compare(&m, &r, &env, &files, &argv0, &which, &mut consumed)?,
            }
        }
        if nruns > 1 {
            kinds.insert("clone");
        }
        if case.shell.is_some() {
            kinds.insert("shell");
        }
        if !kinds.is_empty() {
            rep.nontrivial(format!("{}|term:{:?}", kinds.iter().cloned().collect::<Vec<_>>().join("+"), case.term));
        }
        Ok(())
    })();
    match old_path {
        Some(p) => std::env::set_var("PATH", p),
        None => std::env::remove_var("PATH"),
    }
    reap_all();
    result
}

// ---------------------------------------------------------------------------
// Generators
// ---------------------------------------------------------------------------

fn bytes_strategy(max: usize) -> impl Strategy<Value = Bytes> {
    prop_oneof![
        2 => Just(vec![]),
        6 => prop::collection::vec(prop_oneof![4 => 0x20u8..0x7f, 1 => 1u8..=255u8], 0..max),
        1 => Just(b"a b".to_vec()),
        1 => Just(b"=x=".to_vec()),
    ]
}
fn key_strategy() -> impl Strategy<Value = Bytes> {
    // small alphabet (forces duplicates) including names present in the harness environment
    prop::sample::select(vec![b"A".to_vec(), b"B".to_vec(), b"C".to_vec(), b"VERIF_X".to_vec(), b"HOME".to_vec(), b"PATH".to_vec(), b"K1".to_vec(), b"LANG".to_vec(), b"k\xff".to_vec(), b"a b".to_vec()])
}

fn op_strategy() -> impl Strategy<Value = BOp> {
    let out_kind = prop_oneof![2 => Just(OutKind::Pipe), 2 => Just(OutKind::File), 1 => Just(OutKind::Null), 1 => Just(OutKind::None)];
    prop_oneof![
        5 => bytes_strategy(20).prop_map(BOp::Arg),
        2 => prop::collection::vec(bytes_strategy(10), 0..5).prop_map(BOp::Args),
        5 => (key_strategy(), bytes_strategy(12)).prop_map(|(k, v)| BOp::Env(k, v)),
        2 => prop::collection::vec((key_strategy(), bytes_strategy(8)), 0..5).prop_map(BOp::EnvExtend),
        // a large environment: hundreds of distinct names in one call (list growth, re-allocation points)
        1 => (150u16..420, any::<u8>()).prop_map(|(n, tag)| BOp::EnvExtend((0..n).map(|i| (format!("BULK{}_{}", tag % 4, i).into_bytes(), format!("v{}", i).into_bytes())).collect())),
        4 => key_strategy().prop_map(BOp::EnvRemove),
        1 => Just(BOp::EnvClear),
        2 => (0u8..3).prop_map(BOp::Cwd),
        2 => prop_oneof![2 => Just(InKind::File), 1 => Just(InKind::Null), 2 => bytes_strategy(3000).prop_map(InKind::Data), 1 => Just(InKind::Pipe), 1 => Just(InKind::None), 1 => Just(InKind::Merge)].prop_map(BOp::Stdin),
        2 => out_kind.clone().prop_map(BOp::Stdout),
        2 => prop_oneof![4 => out_kind, 1 => Just(OutKind::Merge)].prop_map(BOp::Stderr),
        1 => Just(BOp::Detached),
        1 => Just(BOp::CloneKeepOriginal),
        1 => Just(BOp::CloneKeepCopy),
    ]
}

pub fn case_strategy() -> impl Strategy<Value = BuilderCase> {
    let term = prop_oneof![Just(Term::Popen), Just(Term::Join), Just(Term::Capture), Just(Term::Communicate), Just(Term::StreamStdin), Just(Term::StreamStdout), Just(Term::StreamStderr), Just(Term::PopenDrop)];
    (prop_oneof![5 => Just(None), 1 => bytes_strategy(40).prop_map(Some)], prop::collection::vec(op_strategy(), 0..16), term).prop_map(|(shell, ops, term)| {
        // construction rules (not filtering): keep the history inside the part
        // of the API whose behaviour is specified and that cannot block the harness
        let mut ops = ops;
        // a piped stdin without data is only finished by popen (harness closes it) or stream_stdin
        let pipe_in = ops.iter().any(|o| matches!(o, BOp::Stdin(InKind::Pipe)));
        let term = if pipe_in && !matches!(term, Term::Popen | Term::StreamStdin) { Term::Popen } else { term };
        // stdout/stderr=Merge on both is a different property (C05)
        let mut out_merge = false;
        ops.retain(|o| match o {
            BOp::Stdout(OutKind::Merge) => {
                out_merge = true;
                false
            }
            _ => true,
        });
        let _ = out_merge;
        // a detached child is not reaped by the terminators; the harness reaps it (fine)
        BuilderCase { shell, ops, term }
    })
}

fn setup_env() {
    // controlled environment of the worker
    let keep: Vec<(std::ffi::OsString, std::ffi::OsString)> = std::env::vars_os().filter(|(k, _)| k == "PATH" || k == "TMPDIR" || k == "VERIF_ROOT" || k == "VERIF_TRACE").collect();
    for (k, _) in std::env::vars_os() {
        std::env::remove_var(k);
    }
    for (k, v) in keep {
        std::env::set_var(k, v);
    }
    std::env::set_var("HOME", "/nonexistent-home");
    std::env::set_var("LANG", "C");
    std::env::set_var("VERIF_X", "from-parent");
    std::env::set_var("A", "parent-a");
}

fn worker(ctx: &Ctx) {
    quiet_panics();
    setup_env();
    let n = ctx.tier.pick(500, 5000);
    ctx.explore("real", "c16", case_strategy(), n, 300, |c, rep| check_case(ctx, c, rep));
}

fn replay(ctx: &Ctx, _engine: &str, case: &Value) -> CaseResult {
    quiet_panics();
    setup_env();
    let c: BuilderCase = serde_json::from_value(case.clone()).map_err(|e| Fail::new("bad-replay-file", e.to_string()))?;
    println!("{:?}", c);
    let mut rep = CaseReport::default();
    check_case(ctx, &c, &mut rep)
}

pub static C16: PropDef = PropDef {
    id: "C16",
    level: "exploration",
    rule: "proptest generates histories of up to 16 builder calls (arg, args, env, env_extend, env_remove, env_clear, cwd, stdin/stdout/stderr with Redirection values, files, NullFile, data, Merge, detached, clone continuing with either copy and running both) over arbitrary non-NUL bytes with environment names from a small alphabet that includes names set in the harness's own controlled environment, optionally starting from Exec::shell(s) with PATH pointing at a scratch `sh`, ending in one of the 7 terminators. A 60-line model of a plain command description predicts either a refusal (panic) at a specific call / terminator or the child's self-report (argv, raw environment, cwd, bytes read from stdin, kind of each standard stream). Non-trivial = the history contains remove-then-set, clear-then-set/extend, a duplicate name, an edit after clone, a refused setting, a refused terminator, a clone or shell; distinct = distinct histories among those. Terminator PopenDrop drops the Popen while the child is held alive by a release file: the drop waits iff the command (also a clone of it) is not detached. Between the builder calls and the terminator the harness sets, in its own environment, every name a builder call removed and none set again. env_extend with 150-420 distinct names exercises large environments.",
    assumptions: &["the helper child reports its own argv/environ/cwd/fds through a side file; kinds of streams are judged by fstat identity", "stdin=Pipe without data is only combined with popen/stream_stdin; Merge on stdout is left to C05"],
    engines: "real",
    workers: |_| 16,
    worker,
    replay,
    exhaustive: false,
};
