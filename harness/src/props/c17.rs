//! C17: nothing is allocated between fork and exec.
use crate::interpose as ip;
use crate::props::c0104::quiet_panics;
use crate::real::*;
use crate::runner::*;
use proptest::prelude::*;
use serde::{Deserialize, Serialize};
use serde_json::Value;
use std::ffi::{OsStr, OsString};
use std::os::unix::ffi::OsStringExt;
use std::sync::atomic::Ordering::SeqCst;
use subprocess::{Popen, PopenConfig, Redirection};

#[derive(Clone, Copy, Debug, PartialEq, Serialize, Deserialize)]
pub enum Outcome {
    /// exec succeeds at the candidate placed at this index of PATH
    SuccessAt(u8),
    /// no runnable candidate
    FailEverywhere,
    /// injected failure of a child-side step: (kind, errno)
    ChildFault(u8, i32),
    /// command with a slash, runnable
    DirectSuccess,
    /// command with a slash, missing
    DirectFail,
    /// command with slashes of the given total length (cannot exist beyond PATH_MAX / NAME_MAX)
    DirectLong(u16),
    /// an executable text file without an interpreter line (the kernel says ENOEXEC):
    /// named directly (false) or found through PATH (true)
    TextFile(bool),
}

#[derive(Clone, Debug, Serialize, Deserialize)]
pub struct AllocCase {
    pub name_len: u16,
    /// lengths of the PATH entries (directories that do not exist unless chosen as the winner)
    pub path_lens: Vec<u16>,
    pub nargs: u16,
    pub arg_len: u16,
    pub nenv: Option<u16>,
    /// 0 = none, otherwise target length of the cwd path
    pub cwd_len: u16,
    pub streams: [u8; 3],
    pub outcome: Outcome,
    pub ids: bool,
    pub setpgid: bool,
    /// Some(n): the program is named through PopenConfig::executable and
    /// argv[0] is a different name of n bytes
    #[serde(default)]
    pub argv0_len: Option<u16>,
    /// the parent's own descriptors in this mask (bit 0..2 = fd 0..2) are closed while
    /// it spawns, so the child's pipe ends are allocated on the numbers they are then
    /// to be installed on
    #[serde(default)]
    pub closed_std: u8,
}

pub fn check_case(ctx: &Ctx, case: &AllocCase, rep: &mut CaseReport) -> CaseResult {
    let sc = Scratch::new(&ctx.scratch, "c17");
    let bindir = sc.subdir("bin");
    let prefix = sc.path("rep");
    reap_all();
    let fail = |sig: &str, msg: String| Err(Fail::new(format!("C17:{}", sig), format!("{}\ncase={:?}", msg, case)));
    // a real file name is at most 255 bytes; longer names can only fail (ENAMETOOLONG)
    let name = "c".repeat(case.name_len.max(1) as usize);
    let runnable_name = case.name_len <= 255;
    let direct = matches!(case.outcome, Outcome::DirectSuccess | Outcome::DirectFail | Outcome::DirectLong(_) | Outcome::TextFile(false));
    if runnable_name {
        link_vchild(&bindir, OsStr::new(&name));
        set_mode(&bindir, "report", &[&prefix.to_string_lossy(), "0", ""]);
    }
    // PATH
    let mut entries: Vec<OsString> = case.path_lens.iter().enumerate().map(|(i, l)| {
        if *l == 0 {
            OsString::new()
        } else {
            let mut s = format!("/nonexistent-{}-", i);
            while s.len() < *l as usize {
                s.push('p');
            }
            OsString::from(s)
        }
    }).collect();
    let mut will_succeed = false;
    match case.outcome {
        Outcome::SuccessAt(j) if runnable_name => {
            let j = if entries.is_empty() { 0 } else { j as usize % (entries.len() + 1) };
            entries.insert(j.min(entries.len()), bindir.clone().into_os_string());
            will_succeed = true;
        }
        Outcome::ChildFault(..) if runnable_name => {
            entries.push(bindir.clone().into_os_string());
        }
        Outcome::DirectSuccess if runnable_name => will_succeed = true,
        Outcome::TextFile(via_path) if runnable_name => {
            // replace the helper link by a text file
            let f = bindir.join(&name);
            let _ = std::fs::remove_file(&f);
            std::fs::write(&f, b"echo not a program image\n").unwrap();
            chmod(&f, 0o755);
            if via_path {
                entries.push(bindir.clone().into_os_string());
            }
        }
        _ => {}
    }
    let mut pv: Vec<u8> = vec![];
    for (i, e) in entries.iter().enumerate() {
        if i > 0 {
            pv.push(b':');
        }
        pv.extend_from_slice(&e.clone().into_vec());
    }
    let old_path = std::env::var_os("PATH");
    if pv.is_empty() {
        pv = b"/nonexistent-only".to_vec();
    }
    std::env::set_var("PATH", OsString::from_vec(pv));
    // cwd
    let mut cwd: Option<OsString> = None;
    if case.cwd_len > 0 {
        let mut p = sc.subdir("w");
        while p.as_os_str().len() + 60 < case.cwd_len as usize {
            p = p.join("d".repeat(50));
        }
        let rest = (case.cwd_len as usize).saturating_sub(p.as_os_str().len() + 1);
        if rest > 0 {
            p = p.join("e".repeat(rest.min(200)));
        }
        std::fs::create_dir_all(&p).unwrap();
        cwd = Some(p.into_os_string());
    }
    let command: OsString = if direct {
        if matches!(case.outcome, Outcome::DirectSuccess | Outcome::TextFile(false)) {
            bindir.join(&name).into_os_string()
        } else if let Outcome::DirectLong(l) = case.outcome {
            let mut s = String::from("/nonexistent-dir");
            while s.len() < l as usize {
                s.push('/');
                let room = (l as usize - s.len()).min(100);
                s.push_str(&"q".repeat(room));
            }
            OsString::from(s)
        } else {
            sc.path("missing-program").into_os_string()
        }
    } else {
        OsString::from(&name)
    };
    let mut executable: Option<OsString> = None;
    let mut argv = match case.argv0_len {
        Some(n) => {
            executable = Some(command);
            vec![OsString::from("z".repeat(n.max(1) as usize))]
        }
        None => vec![command],
    };
    for i in 0..case.nargs {
        argv.push(OsString::from(format!("{}{}", "a".repeat(case.arg_len as usize), i)));
    }
    let env: Option<Vec<(OsString, OsString)>> = case.nenv.map(|n| (0..n).map(|i| (OsString::from(format!("VAR{}", i)), OsString::from("v".repeat((i % 40) as usize)))).collect());
    let red = |k: u8, n: &str| -> Redirection {
        match k % 3 {
            0 => Redirection::None,
            1 => Redirection::Pipe,
            _ => Redirection::File(std::fs::OpenOptions::new().create(true).read(true).write(true).open(sc.path(n)).unwrap()),
        }
    };
    let cfg = PopenConfig { stdin: red(case.streams[0], "i"), stdout: red(case.streams[1], "o"), stderr: red(case.streams[2], "e"), env, cwd, setuid: if case.ids { Some(0) } else { None }, setgid: if case.ids { Some(0) } else { None }, setpgid: case.setpgid, executable, ..Default::default() };

    ip::shared_reset();
    if let Outcome::ChildFault(kind, errno) = case.outcome {
        let kinds = [ip::K_CHDIR, ip::K_DUP2, ip::K_SETUID, ip::K_SETGID, ip::K_SETPGID, ip::K_EXEC];
        let k = kinds[kind as usize % kinds.len()];
        // the last exec attempt (the runnable one) for K_EXEC, the first call otherwise
        let ord = if k == ip::K_EXEC { entries.iter().filter(|e| !e.is_empty()).count().max(1) as u32 } else { 1 };
        ip::fault_arm(k, ord, errno, true);
    }
    // stays closed until the Popen's handles are gone (they may sit on these numbers)
    let closed_guard = CloseGuard::new(case.closed_std & 7);
    ip::ARM_PROBE_ON_FORK.store(true, SeqCst);
    let res = Popen::create(&argv, cfg);
    ip::ARM_PROBE_ON_FORK.store(false, SeqCst);
    ip::fault_disarm();
    match old_path {
        Some(p) => std::env::set_var("PATH", p),
        None => std::env::remove_var("PATH"),
    }
    let sh = ip::shared();
    let allocs = sh.child_allocs.load(SeqCst);
    let bytes = sh.child_alloc_bytes.load(SeqCst);
    let first = sh.child_first_alloc_size.load(SeqCst);
    let deallocs = sh.child_deallocs.load(SeqCst);
    let exec_failed = sh.child_exec_failed.load(SeqCst);
    let fault_hit = sh.child_fault_hit.load(SeqCst) > 0;
    let ok = res.is_ok();
    if let Ok(mut p) = res {
        drop(p.stdin.take());
        drop(p.stdout.take());
        drop(p.stderr.take());
        let _ = p.wait();
    }
    drop(closed_guard);
    reap_all();
    rep.count("child_deallocs_observed", deallocs as u64);
    // classification
    let big_path = case.path_lens.iter().filter(|l| **l > 0).count() >= 2;
    let big_len = matches!(case.outcome, Outcome::DirectLong(_)) || case.name_len >= 384 || case.cwd_len >= 384 || case.path_lens.iter().any(|l| *l >= 384) || case.arg_len >= 384;
    if big_path || !ok || big_len {
        let dim = if case.cwd_len >= 384 { "cwd" } else if case.path_lens.iter().any(|l| *l >= 384) { "path" } else if case.name_len >= 384 { "name" } else if case.nargs > 100 || case.nenv.unwrap_or(0) > 100 { "argv/env" } else { "none" };
        rep.nontrivial(format!("large:{}|closed{}|exe{}|cands{}|outcome:{}|ok{}|faulthit{}", dim, (case.closed_std & 7 != 0) as u8, match case.argv0_len { None => "=argv0", Some(n) if n < case.name_len => ">argv0", Some(_) => "<=argv0" }, if big_path { ">=2" } else { "<2" }, match case.outcome { Outcome::SuccessAt(_) => "success", Outcome::FailEverywhere => "fail-all", Outcome::ChildFault(k, _) => ["f-chdir", "f-dup2", "f-setuid", "f-setgid", "f-setpgid", "f-exec"][k as usize % 6], Outcome::DirectSuccess => "direct-ok", Outcome::DirectFail => "direct-fail", Outcome::DirectLong(l) => if l >= 4096 { "direct-long>=PATH_MAX" } else { "direct-long" }, Outcome::TextFile(true) => "text-file-on-path", Outcome::TextFile(false) => "text-file-direct" }, ok as u8, fault_hit as u8));
    }
    let _ = (exec_failed, will_succeed);
    if allocs > 0 {
        let what = if case.cwd_len >= 384 && first as usize >= case.cwd_len as usize / 2 { "cwd-path-copy" } else if allocs > 100 { "panic-or-unwind-in-child" } else { "other" };
        return fail(&format!("allocation-in-child:{}", what), format!("{} heap allocations ({} bytes, first of {} bytes) between fork and exec/_exit; launch ok={}", allocs, bytes, first, ok));
    }
    Ok(())
}

pub fn case_strategy() -> impl Strategy<Value = AllocCase> {
    let len = prop_oneof![4 => 1u16..30, 2 => 30u16..384, 2 => 384u16..4000];
    let plen = prop_oneof![1 => Just(0u16), 5 => 1u16..60, 2 => 60u16..384, 2 => 384u16..4000];
    let outcome = prop_oneof![
        4 => any::<u8>().prop_map(Outcome::SuccessAt),
        3 => Just(Outcome::FailEverywhere),
        3 => (0u8..6, prop::sample::select(vec![libc::EPERM, libc::EACCES, libc::ENOENT, libc::EIO, libc::ENOMEM, libc::EINVAL, libc::ENOEXEC, libc::ETXTBSY, libc::E2BIG, libc::ENOTDIR, libc::ELOOP, libc::ENAMETOOLONG, libc::EAGAIN, 524])).prop_map(|(k, e)| Outcome::ChildFault(k, e)),
        1 => Just(Outcome::DirectSuccess),
        1 => Just(Outcome::DirectFail),
        2 => prop_oneof![Just(4095u16), Just(4096u16), Just(4097u16), 300u16..8000].prop_map(Outcome::DirectLong),
        1 => any::<bool>().prop_map(Outcome::TextFile),
    ];
    (
        prop_oneof![6 => 1u16..40, 2 => 40u16..256, 1 => 256u16..4000],
        prop_oneof![9 => prop::collection::vec(plen, 0..60), 1 => prop::collection::vec(Just(0u16), 2..6)],
        prop_oneof![4 => 0u16..10, 1 => 10u16..300],
        len.clone(),
        prop_oneof![2 => Just(None), 2 => (0u16..20).prop_map(Some), 1 => (20u16..300).prop_map(Some)],
        prop_oneof![3 => Just(0u16), 2 => 1u16..384, 3 => 384u16..4000],
        [0u8..3, 0u8..3, 0u8..3],
        outcome,
        any::<bool>(),
        any::<bool>(),
        (prop_oneof![3 => Just(None), 1 => prop_oneof![Just(1u16), 1u16..40, 40u16..300].prop_map(Some)], prop_oneof![3 => Just(0u8), 1 => 1u8..8]),
    )
        .prop_map(|(name_len, mut path_lens, nargs, arg_len, nenv, cwd_len, streams, outcome, ids, setpgid, (argv0_len, closed_std))| {
            // rotate so that the longest entry is first / last / in the middle
            if !path_lens.is_empty() {
                let r = (name_len as usize) % path_lens.len();
                path_lens.rotate_left(r);
            }
            // keep argv below ARG_MAX
            let nargs = if (nargs as usize) * (arg_len as usize + 8) > 600_000 { 100 } else { nargs };
            AllocCase { name_len, path_lens, nargs, arg_len, nenv, cwd_len, streams, outcome, ids, setpgid, argv0_len, closed_std }
        })
}

fn worker(ctx: &Ctx) {
    quiet_panics();
    let n = ctx.tier.pick(400, 6000);
    ctx.explore("real+probe", "c17", case_strategy(), n, 300, |c, rep| check_case(ctx, c, rep));
}

fn replay(ctx: &Ctx, _engine: &str, case: &Value) -> CaseResult {
    quiet_panics();
    let c: AllocCase = serde_json::from_value(case.clone()).map_err(|e| Fail::new("bad-replay-file", e.to_string()))?;
    let mut rep = CaseReport::default();
    check_case(ctx, &c, &mut rep)
}

pub static C17: PropDef = PropDef {
    id: "C17",
    level: "exploration",
    rule: "proptest generates command-name lengths 1..4000, PATH values of 0..60 entries of length 0..4000 (rotated so the longest entry is first / in the middle / last, empty entries included), 0..300 arguments of length up to 4000, env = inherit or 0..300 entries, cwd none / short / 384..4000 bytes (nested real directories), all stream kinds, setuid/setgid/setpgid, and an outcome in {exec succeeds at the j-th PATH candidate, fails everywhere, an injected errno at a child-side step (chdir, dup2, setuid, setgid, setpgid, last exec), direct path runnable / missing / 300..8000 bytes long}. Oracle: the harness's counting global allocator, armed in the forked child by the interposed fork(), reports into a shared page: the number of alloc/alloc_zeroed/realloc calls between fork and exec/_exit must be 0 (deallocations are counted and reported, not judged). Non-trivial = PATH search with >= 2 candidates, or a failing launch, or some length >= 384. A quarter of the cases name the program through PopenConfig::executable with a different argv[0]; exec failures include ENOEXEC (injected, and real text files without an interpreter line, direct and through PATH), ETXTBSY, E2BIG; a quarter of the cases spawn with some of the parent's descriptors 0-2 closed, so that the child's stream sources sit on the numbers they are to be installed on.",
    assumptions: &["the probe sees allocations made through Rust's global allocator (the crate and std); libc-internal malloc calls are not observed", "the interposition layer itself never allocates"],
    engines: "real",
    workers: |_| 16,
    worker,
    replay,
    exhaustive: false,
};
