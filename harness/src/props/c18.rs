//! C18: children start with a clean signal state regardless of the parent.
use crate::props::c0104::quiet_panics;
use crate::real::*;
use crate::runner::*;
use proptest::prelude::*;
use serde::{Deserialize, Serialize};
use serde_json::Value;
use std::ffi::OsStr;
use std::io::Read;
use subprocess::{Exec, ExitStatus, Pipeline, Popen, PopenConfig, Redirection};

#[derive(Clone, Copy, Debug, PartialEq, Serialize, Deserialize)]
pub enum Disp {
    Ignored,
    Default,
    Handler,
}
#[derive(Clone, Copy, Debug, PartialEq, Serialize, Deserialize)]
pub enum Form {
    PopenCreate,
    ExecPopen,
    ExecCapture,
    Pipeline(u8),
    /// behavioural: flooding child whose reader goes away must die of SIGPIPE
    FloodSigpipe(u32),
    /// Popen::create with options: bit 0 setpgid, 1 setuid+setgid (to 0), 2 cwd,
    /// 3 detached, 4 stdout on a pseudo-terminal, 5 stderr on a pseudo-terminal
    PopenOptions(u8),
}

#[derive(Clone, Debug, Serialize, Deserialize)]
pub struct SigCase {
    /// signals blocked on the spawning thread
    pub mask: Vec<u8>,
    pub sigpipe: Disp,
    pub fresh_thread: bool,
    pub form: Form,
}

extern "C" fn noop_handler(_s: i32) {}

#[derive(Debug)]
enum Obs {
    Reports(Vec<(u64, u64, u64)>),
    Status(ExitStatus),
    Error(String),
}

fn do_spawn(case: SigCase, helper: std::path::PathBuf, prefix: std::path::PathBuf, nreports: usize) -> Obs {
    // install the mask on this thread
    unsafe {
        let mut set: libc::sigset_t = std::mem::zeroed();
        libc::sigemptyset(&mut set);
        for s in &case.mask {
            libc::sigaddset(&mut set, *s as i32);
        }
        let mut old: libc::sigset_t = std::mem::zeroed();
        libc::pthread_sigmask(libc::SIG_SETMASK, &set, &mut old);
        let r = (|| -> Obs {
            match case.form {
                Form::PopenCreate => match Popen::create(&[helper.as_os_str()], PopenConfig::default()) {
                    Ok(mut p) => {
                        let _ = p.wait();
                    }
                    Err(e) => return Obs::Error(e.to_string()),
                },
                Form::PopenOptions(bits) => {
                    let mut cfg = PopenConfig { setpgid: bits & 1 != 0, detached: bits & 8 != 0, ..Default::default() };
                    if bits & 2 != 0 {
                        cfg.setuid = Some(0);
                        cfg.setgid = Some(0);
                    }
                    if bits & 4 != 0 {
                        cfg.cwd = Some(std::ffi::OsString::from("/"));
                    }
                    // a pseudo-terminal for the child's output (the master stays with us)
                    let mut master = -1;
                    if bits & 0x30 != 0 {
                        let mut slave = -1;
                        if libc::openpty(&mut master, &mut slave, std::ptr::null_mut(), std::ptr::null_mut(), std::ptr::null_mut()) == 0 {
                            libc::fcntl(master, libc::F_SETFD, libc::FD_CLOEXEC);
                            libc::fcntl(slave, libc::F_SETFD, libc::FD_CLOEXEC);
                            let f = {
                                use std::os::unix::io::FromRawFd;
                                std::fs::File::from_raw_fd(slave)
                            };
                            if bits & 0x10 != 0 {
                                cfg.stdout = subprocess::Redirection::File(f.try_clone().unwrap());
                            }
                            if bits & 0x20 != 0 {
                                cfg.stderr = subprocess::Redirection::File(f.try_clone().unwrap());
                            }
                        }
                    }
                    let r = Popen::create(&[helper.as_os_str()], cfg);
                    let out = match r {
                        Ok(mut p) => {
                            let _ = p.wait();
                            None
                        }
                        Err(e) => Some(Obs::Error(e.to_string())),
                    };
                    if master >= 0 {
                        libc::close(master);
                    }
                    if let Some(o) = out {
                        return o;
                    }
                }
                Form::ExecPopen => match Exec::cmd(&helper).popen() {
                    Ok(mut p) => {
                        let _ = p.wait();
                    }
                    Err(e) => return Obs::Error(e.to_string()),
                },
                Form::ExecCapture => {
                    if let Err(e) = Exec::cmd(&helper).capture() {
                        return Obs::Error(e.to_string());
                    }
                }
                Form::Pipeline(n) => {
                    let cmds: Vec<Exec> = (0..n.clamp(2, 5)).map(|_| Exec::cmd(&helper)).collect();
                    if let Err(e) = Pipeline::from_exec_iter(cmds).stdout(subprocess::NullFile).join() {
                        return Obs::Error(e.to_string());
                    }
                }
                Form::FloodSigpipe(r) => {
                    let vc = vchild_path();
                    match Popen::create(&[vc.as_os_str(), OsStr::new("flood"), OsStr::new("1")], PopenConfig { stdout: Redirection::Pipe, ..Default::default() }) {
                        Ok(mut p) => {
                            let mut o = p.stdout.take().unwrap();
                            let mut buf = vec![0u8; r.max(1) as usize];
                            let _ = o.read_exact(&mut buf);
                            drop(o);
                            match p.wait() {
                                Ok(st) => return Obs::Status(st),
                                Err(e) => return Obs::Error(e.to_string()),
                            }
                        }
                        Err(e) => return Obs::Error(e.to_string()),
                    }
                }
            }
            let reps = read_reports(&prefix, nreports, 10_000);
            Obs::Reports(reps.iter().map(|r| (r.sigblk_bits(), r.sigign_bits(), r.sigcgt_bits())).collect())
        })();
        libc::pthread_sigmask(libc::SIG_SETMASK, &old, std::ptr::null_mut());
        r
    }
}

pub fn check_case(ctx: &Ctx, case: &SigCase, rep: &mut CaseReport) -> CaseResult {
    let sc = Scratch::new(&ctx.scratch, "c18");
    let bindir = sc.subdir("bin");
    let helper = link_vchild(&bindir, OsStr::new("sigprobe"));
    let prefix = sc.path("rep");
    set_mode(&bindir, "report", &[&prefix.to_string_lossy(), "0", ""]);
    reap_all();
    let fail = |sig: &str, msg: String| Err(Fail::new(format!("C18:{}", sig), format!("{}\ncase={:?}", msg, case)));
    if !case.mask.is_empty() || case.sigpipe == Disp::Ignored {
        let mc = if case.mask.is_empty() { "empty" } else if case.mask.contains(&13) { "with-sigpipe" } else if case.mask.iter().any(|s| *s >= 34) { "with-rt" } else { "std" };
        rep.nontrivial(format!("mask:{}|pipe:{:?}|thread{}|{}", mc, case.sigpipe, case.fresh_thread as u8, match case.form { Form::Pipeline(n) => format!("pipeline{}", n.clamp(2, 5)), Form::FloodSigpipe(_) => "flood".into(), Form::PopenOptions(b) => format!("options{:02x}", b & 0x3f), f => format!("{:?}", f) }));
    }
    // parent's SIGPIPE disposition
    let old = unsafe {
        libc::signal(
            libc::SIGPIPE,
            match case.sigpipe {
                Disp::Ignored => libc::SIG_IGN,
                Disp::Default => libc::SIG_DFL,
                Disp::Handler => noop_handler as usize,
            },
        )
    };
    let nreports = match case.form {
        Form::Pipeline(n) => n.clamp(2, 5) as usize,
        Form::FloodSigpipe(_) => 0,
        _ => 1,
    };
    let obs = if case.fresh_thread {
        let (c, h, p) = (case.clone(), helper.clone(), prefix.clone());
        std::thread::spawn(move || do_spawn(c, h, p, nreports)).join().unwrap_or(Obs::Error("spawning thread panicked".into()))
    } else {
        do_spawn(case.clone(), helper.clone(), prefix.clone(), nreports)
    };
    unsafe { libc::signal(libc::SIGPIPE, old) };
    reap_all();
    match obs {
        Obs::Error(e) => fail("spawn-error", e),
        Obs::Status(st) => {
            if st != ExitStatus::Signaled(libc::SIGPIPE as u8) {
                let kind = if st == ExitStatus::Exited(77) { "sigpipe-ignored-in-child" } else { "unexpected-status" };
                return fail(kind, format!("flooding child whose reader went away ended with {:?}, expected Signaled(13)", st));
            }
            Ok(())
        }
        Obs::Reports(reps) => {
            if reps.len() != nreports {
                return fail("missing-report", format!("{} of {} children reported", reps.len(), nreports));
            }
            for (i, (blk, ign, cgt)) in reps.iter().enumerate() {
                if *blk != 0 {
                    return fail("signals-blocked-in-child", format!("child #{} starts with SigBlk={:016x} (spawning thread had blocked {:?})", i, blk, case.mask));
                }
                let bit = 1u64 << (libc::SIGPIPE - 1);
                if ign & bit != 0 {
                    return fail("sigpipe-ignored-in-child", format!("child #{} starts with SIGPIPE ignored (SigIgn={:016x})", i, ign));
                }
                if cgt & bit != 0 {
                    return fail("sigpipe-caught-in-child", format!("child #{} SigCgt={:016x}", i, cgt));
                }
            }
            Ok(())
        }
    }
}

pub fn case_strategy() -> impl Strategy<Value = SigCase> {
    let sig = prop_oneof![6 => 1u8..32, 1 => Just(13u8), 2 => 34u8..65].prop_filter("blockable", |s| *s != 9 && *s != 19 && *s != 32 && *s != 33);
    let mask = prop_oneof![2 => Just(vec![]), 5 => prop::collection::vec(sig.clone(), 1..6), 1 => prop::collection::vec(sig, 20..60)];
    let form = prop_oneof![3 => Just(Form::PopenCreate), 2 => Just(Form::ExecPopen), 2 => Just(Form::ExecCapture), 3 => (2u8..6).prop_map(Form::Pipeline), 2 => prop_oneof![Just(1u32), 1u32..200_000].prop_map(Form::FloodSigpipe), 3 => (1u8..64).prop_map(Form::PopenOptions)];
    (mask, prop_oneof![3 => Just(Disp::Ignored), 1 => Just(Disp::Default), 1 => Just(Disp::Handler)], any::<bool>(), form).prop_map(|(mut mask, sigpipe, fresh_thread, form)| {
        mask.sort();
        mask.dedup();
        SigCase { mask, sigpipe, fresh_thread, form }
    })
}

fn worker(ctx: &Ctx) {
    quiet_panics();
    let n = ctx.tier.pick(400, 4000);
    ctx.explore("real", "c18", case_strategy(), n, 200, |c, rep| check_case(ctx, c, rep));
}

fn replay(ctx: &Ctx, _engine: &str, case: &Value) -> CaseResult {
    quiet_panics();
    let c: SigCase = serde_json::from_value(case.clone()).map_err(|e| Fail::new("bad-replay-file", e.to_string()))?;
    let mut rep = CaseReport::default();
    check_case(ctx, &c, &mut rep)
}

pub static C18: PropDef = PropDef {
    id: "C18",
    level: "exploration",
    rule: "proptest generates a signal mask (subset of 1..64 without KILL, STOP, 32, 33; empty, small, or 20..60 signals) installed with pthread_sigmask on the spawning thread (main or a fresh thread), the harness's SIGPIPE disposition in {ignored (as the Rust runtime sets it), default, handler}, and a spawn form in {Popen::create, Exec::popen, Exec::capture, every stage of a 2..5 stage pipeline, behavioural flood}. Oracle: each helper child reports SigBlk == 0 and SIGPIPE neither ignored nor caught (from /proc/self/status, written to a side file); behavioural form: a child writing forever whose reader is closed after r bytes must be reported as Signaled(SIGPIPE) (it exits with 77 on EPIPE, so a missing reset is a wrong status, never a hang). Non-trivial = mask non-empty or parent disposition `ignored`. A further spawn form is Popen::create with generated options (setpgid, setuid+setgid, cwd, detached) and the child's stdout and/or stderr on a pseudo-terminal.",
    assumptions: &["the child's own view of its signal state (/proc/self/status) right after exec"],
    engines: "real",
    workers: |_| 16,
    worker,
    replay,
    exhaustive: false,
};
