//! C07: a Popen exists iff the program started; failed launches leave
//! nothing behind (fault enumeration over every injection point).
use crate::interpose as ip;
use crate::props::c0104::quiet_panics;
use crate::real::*;
use crate::runner::*;
use proptest::prelude::*;
use serde::{Deserialize, Serialize};
use serde_json::Value;
use std::ffi::{OsStr, OsString};
use std::sync::atomic::Ordering::SeqCst;
use subprocess::{Popen, PopenConfig, PopenError, Redirection};

#[derive(Clone, Copy, Debug, PartialEq, Serialize, Deserialize)]
pub enum SK {
    None,
    Pipe,
    File,
    Merge,
}

#[derive(Clone, Debug, Serialize, Deserialize)]
pub struct Config {
    pub stdin: SK,
    pub stdout: SK,
    pub stderr: SK,
    pub detached: bool,
    pub cwd: bool,
    pub ids: bool,
    pub setpgid: bool,
    pub via_path: bool,
    /// parent's own fds 0..2 closed during the launch (bit mask): a daemon-like parent
    #[serde(default)]
    pub closed_std: u8,
}

#[derive(Clone, Copy, Debug, PartialEq, Serialize, Deserialize)]
pub enum RealCause {
    MissingProgram,
    NoExecBit,
    DirectoryAsProgram,
    TextWithoutInterpreter,
    MissingCwd,
    CwdNotADirectory,
    CwdTooLong,
    MissingOnPath,
}

#[derive(Clone, Debug, Serialize, Deserialize)]
pub enum Fault {
    None,
    /// (kind index in interpose::K_*, ordinal 1.., errno, in child)
    Inject(usize, u32, i32, bool),
    Real(RealCause),
}

#[derive(Clone, Debug, Serialize, Deserialize)]
pub struct LaunchCase {
    pub cfg: Config,
    pub fault: Fault,
    /// exec attempts counted in the dry run (a PATH search tries several
    /// candidates; only the failure of the last one fails the launch)
    #[serde(default)]
    pub exec_calls: u32,
}

struct Run {
    result: Result<u32, (String, Option<i32>, bool)>,
    parent_calls: Vec<u32>,
    child_calls: Vec<u32>,
    fault_hit: bool,
    fd_diff: Vec<String>,
    children: Result<(), String>,
    report: Option<Report>,
}

fn launch(ctx: &Ctx, case: &LaunchCase) -> Run {
    launch_in(&ctx.scratch, case)
}

/// The same on a thread of its own: the first launch that thread ever makes (nothing
/// the library may keep per thread has been set up by an earlier, successful launch).
fn launch_on_fresh_thread(ctx: &Ctx, case: &LaunchCase) -> Run {
    let scratch = ctx.scratch.clone();
    let c2 = case.clone();
    std::thread::spawn(move || launch_in(&scratch, &c2)).join().expect("launch thread")
}

fn launch_in(scratch: &std::path::Path, case: &LaunchCase) -> Run {
    let sc = Scratch::new(scratch, "c07");
    let bindir = sc.subdir("bin");
    let prefix = sc.path("rep");
    let prog = link_vchild(&bindir, OsStr::new("prog"));
    set_mode(&bindir, "report", &[&prefix.to_string_lossy(), "0", ""]);
    let wd = sc.subdir("wd");
    let old_path = std::env::var_os("PATH");
    if case.cfg.via_path {
        std::env::set_var("PATH", format!("/nonexistent-dir-x:{}", bindir.display()));
    }
    reap_all();
    // files for File redirections are opened before the snapshot and handed over
    let mk_file = |n: &str, write: bool| -> std::fs::File {
        let p = sc.path(n);
        if write {
            std::fs::File::create(&p).unwrap()
        } else {
            std::fs::write(&p, b"input").unwrap();
            std::fs::File::open(&p).unwrap()
        }
    };
    let mut command: OsString = if case.cfg.via_path { OsString::from("prog") } else { prog.clone().into_os_string() };
    let mut cwd: Option<OsString> = if case.cfg.cwd { Some(wd.clone().into_os_string()) } else { None };
    if let Fault::Real(c) = &case.fault {
        match c {
            RealCause::MissingProgram => command = sc.path("no-such-program").into_os_string(),
            RealCause::MissingOnPath => {
                std::env::set_var("PATH", format!("/nonexistent-dir-x:{}", bindir.display()));
                command = OsString::from("no-such-command-anywhere");
            }
            RealCause::NoExecBit => {
                let p = sc.path("noexec");
                std::fs::write(&p, b"x").unwrap();
                chmod(&p, 0o644);
                command = p.into_os_string();
            }
            RealCause::DirectoryAsProgram => command = wd.clone().into_os_string(),
            RealCause::TextWithoutInterpreter => {
                let p = sc.path("text");
                std::fs::write(&p, b"echo hello\n").unwrap();
                chmod(&p, 0o755);
                command = p.into_os_string();
            }
            RealCause::MissingCwd => cwd = Some(sc.path("no-such-dir").into_os_string()),
            RealCause::CwdNotADirectory => {
                let p = sc.path("plainfile");
                std::fs::write(&p, b"x").unwrap();
                cwd = Some(p.into_os_string());
            }
            RealCause::CwdTooLong => {
                let mut s = wd.clone().into_os_string();
                s.push("/");
                s.push("y".repeat(5000));
                cwd = Some(s);
            }
        }
    }
    let red = |k: SK, name: &str, write: bool| -> Redirection {
        match k {
            SK::None => Redirection::None,
            SK::Pipe => Redirection::Pipe,
            SK::Merge => Redirection::Merge,
            SK::File => Redirection::File(mk_file(name, write)),
        }
    };
    let cfg = PopenConfig {
        stdin: red(case.cfg.stdin, "fin", false),
        stdout: red(case.cfg.stdout, "fout", true),
        stderr: red(case.cfg.stderr, "ferr", true),
        detached: case.cfg.detached,
        cwd,
        setuid: if case.cfg.ids { Some(0) } else { None },
        setgid: if case.cfg.ids { Some(0) } else { None },
        setpgid: case.cfg.setpgid,
        ..Default::default()
    };
    let argv = vec![command, OsString::from("a1")];
    // The files handed over in the config are open now; the attempt owns them
    // and must close them: take the snapshot without them by noting their numbers.
    let before = fd_snapshot();
    let cfg_fds: Vec<i32> = {
        use std::os::unix::io::AsRawFd;
        let mut v = vec![];
        for r in [&cfg.stdin, &cfg.stdout, &cfg.stderr] {
            if let Redirection::File(f) = r {
                v.push(f.as_raw_fd());
            }
        }
        v
    };
    ip::shared_reset();
    ip::counters_reset();
    if let Fault::Inject(kind, k, errno, in_child) = &case.fault {
        ip::fault_arm(*kind, *k, *errno, *in_child);
    }
    let closed = case.cfg.closed_std & 7;
    let before = if closed != 0 {
        let _g = CloseGuard::new(closed);
        fd_snapshot()
    } else {
        before
    };
    ip::COUNTING.store(true, SeqCst);
    // stays closed until the Popen's handles are gone (they may sit on these numbers)
    let closed_guard = CloseGuard::new(closed);
    let res = Popen::create(&argv, cfg);
    let after_closed = fd_snapshot();
    ip::COUNTING.store(false, SeqCst);
    let parent_calls: Vec<u32> = ip::PARENT_CALLS.iter().map(|c| c.load(SeqCst)).collect();
    let fault_hit_parent = ip::FAULT_HIT.load(SeqCst) > 0;
    ip::fault_disarm();
    let (result, popen) = match res {
        Ok(p) => (Ok(p.pid().unwrap_or(0)), Some(p)),
        Err(e) => {
            let os = match &e {
                PopenError::IoError(io) => io.raw_os_error(),
                _ => None,
            };
            (Err((e.to_string(), os, matches!(e, PopenError::LogicError(_)))), None)
        }
    };
    // state right after the call
    let mut fd_d = vec![];
    let mut children = Ok(());
    let mut report = None;
    match popen {
        None => {
            let after = if closed != 0 { after_closed.clone() } else { fd_snapshot() };
            let mut b2 = before.clone();
            for fd in &cfg_fds {
                b2.remove(fd);
            }
            fd_d = fd_diff(&b2, &after, false);
            // descriptors of the config that are still open count as left open by the attempt
            children = child_audit();
        }
        Some(mut p) => {
            let pid = p.pid().unwrap_or(0);
            drop(p.stdin.take());
            drop(p.stdout.take());
            drop(p.stderr.take());
            report = read_report(&prefix, pid, 5000);
            if case.cfg.detached {
                unsafe {
                    ip::raw_kill(pid as i32, libc::SIGKILL);
                }
            }
            let _ = p.wait();
            drop(p);
            reap_all();
        }
    }
    drop(closed_guard);
    let sh = ip::shared();
    let child_calls: Vec<u32> = sh.child_calls.iter().map(|c| c.load(SeqCst)).collect();
    let fault_hit = fault_hit_parent || sh.child_fault_hit.load(SeqCst) > 0;
    match old_path {
        Some(p) => std::env::set_var("PATH", p),
        None => std::env::remove_var("PATH"),
    }
    Run { result, parent_calls, child_calls, fault_hit, fd_diff: fd_d, children, report }
}

fn judge(case: &LaunchCase, run: &Run) -> CaseResult {
    let fail = |sig: &str, msg: String| Err(Fail::new(format!("C07:{}", sig), format!("{}\ncase={:?}", msg, case)));
    let invalid = case.cfg.stdin == SK::Merge || (case.cfg.stdout == SK::Merge && case.cfg.stderr == SK::Merge);
    let det = if case.cfg.detached { "detached" } else { "attached" };
    // a stream merged onto an inherited stream that the parent itself has closed
    // is not a meaningful request: descriptor 2 (or 1) of the child is either
    // absent (the launch fails with EBADF and must clean up like any other failed
    // launch) or happens to be one of the library's own pipe ends that landed on
    // the free number (the launch succeeds); both are accepted
    let closed = case.cfg.closed_std & 7;
    let unsat = (case.cfg.stdout == SK::Merge && case.cfg.stderr == SK::None && closed & 4 != 0) || (case.cfg.stderr == SK::Merge && case.cfg.stdout == SK::None && closed & 2 != 0);
    if unsat && !matches!(case.fault, Fault::None) {
        return Ok(());
    }
    let expect_fail = match &case.fault {
        Fault::None => false,
        Fault::Inject(k, i, _, true) if *k == ip::K_EXEC && *i < case.exec_calls => false, // a skipped PATH candidate
        Fault::Inject(..) => run.fault_hit,
        Fault::Real(_) => true,
    };
    if invalid {
        return Ok(()); // configurations documented as invalid belong to C05
    }
    match &run.result {
        Ok(pid) => {
            if expect_fail {
                return fail(&format!("success-despite-failure:{}", fault_name(&case.fault)), format!("Popen::create returned Ok (pid {}) although a step failed", pid));
            }
            if run.report.is_none() {
                return fail("popen-without-program", format!("Ok(Popen) (pid {}) but the program image never started (no report)", pid));
            }
            Ok(())
        }
        Err((msg, os, logic)) => {
            if !expect_fail && !unsat {
                return fail("unexpected-error", format!("{} (no fault was injected)", msg));
            }
            if *logic {
                return fail("logic-error-for-os-failure", msg.clone());
            }
            let want: Vec<i32> = match &case.fault {
                Fault::Inject(_, _, e, _) => vec![*e],
                Fault::Real(c) => match c {
                    RealCause::MissingProgram | RealCause::MissingOnPath | RealCause::MissingCwd => vec![libc::ENOENT],
                    RealCause::NoExecBit | RealCause::DirectoryAsProgram => vec![libc::EACCES],
                    RealCause::TextWithoutInterpreter => vec![libc::ENOEXEC],
                    RealCause::CwdNotADirectory => vec![libc::ENOTDIR],
                    RealCause::CwdTooLong => vec![libc::ENAMETOOLONG],
                },
                Fault::None => vec![libc::EBADF],
            };
            if !os.map(|o| want.contains(&o)).unwrap_or(false) {
                return fail(&format!("wrong-errno:{}", fault_name(&case.fault)), format!("error {:?} (os error {:?}), the failing step's error is {:?}", msg, os, want));
            }
            if run.report.is_some() {
                return fail("error-but-program-ran", msg.clone());
            }
            if let Err(e) = &run.children {
                let kind = if e.contains("zombie") { "zombie" } else { "running-child" };
                return fail(&format!("{}-left:{}:{}", kind, det, fault_side(&case.fault)), format!("after the failed launch returned: {}", e));
            }
            if !run.fd_diff.is_empty() {
                return fail(&format!("fd-leak:{}", fault_name(&case.fault)), run.fd_diff.join("; "));
            }
            Ok(())
        }
    }
}

fn fault_name(f: &Fault) -> String {
    match f {
        Fault::None => "none".into(),
        Fault::Inject(k, _, _, c) => format!("{}{}", ip::KIND_NAMES[*k], if *c { "(child)" } else { "" }),
        Fault::Real(c) => format!("{:?}", c),
    }
}
fn fault_side(f: &Fault) -> &'static str {
    match f {
        Fault::Inject(_, _, _, false) => "parent-side",
        _ => "child-side",
    }
}

pub fn config_strategy() -> impl Strategy<Value = Config> {
    let sk = prop_oneof![Just(SK::None), Just(SK::Pipe), Just(SK::File)];
    let skm = prop_oneof![3 => Just(SK::None), 3 => Just(SK::Pipe), 3 => Just(SK::File), 1 => Just(SK::Merge)];
    (sk, skm.clone(), skm, any::<bool>(), any::<bool>(), any::<bool>(), any::<bool>(), any::<bool>()).prop_map(|(stdin, stdout, stderr, detached, cwd, ids, setpgid, via_path)| {
        let stderr = if stdout == SK::Merge && stderr == SK::Merge { SK::Pipe } else { stderr };
        Config { stdin, stdout, stderr, detached, cwd, ids, setpgid, via_path, closed_std: 0 }
    })
    .prop_flat_map(|c| (Just(c), prop_oneof![3 => Just(0u8), 2 => 1u8..8]))
    .prop_map(|(mut c, m)| {
        c.closed_std = m;
        c
    })
}

const ERRNOS: &[i32] = &[libc::EMFILE, libc::ENFILE, libc::EAGAIN, libc::ENOMEM, libc::EPERM, libc::EACCES, libc::ENOENT, libc::EIO, libc::ENOTDIR, libc::ELOOP, libc::EINVAL, libc::E2BIG, libc::ETXTBSY, 133, 256, 524, 4095, libc::EINTR, libc::EBADF, libc::ECHILD];

/// Enumerate every injection point of one configuration.
fn enumerate_config(ctx: &Ctx, cfg: &Config, salt: u64) -> bool {
    // a failing launch as the very first launch of a fresh thread
    {
        let case = LaunchCase { cfg: cfg.clone(), fault: Fault::Real(RealCause::MissingProgram), exec_calls: 0 };
        let run = launch_on_fresh_thread(ctx, &case);
        let ok = ctx.run_case("real+fault", &case, |rep| {
            rep.nontrivial(format!("first-on-thread|MissingProgram|{}|in{:?}out{:?}err{:?}", if cfg.detached { "det" } else { "att" }, cfg.stdin, cfg.stdout, cfg.stderr));
            judge(&case, &run)
        });
        if !ok {
            return false;
        }
    }
    // dry run: count the calls of each kind
    let dry = LaunchCase { cfg: cfg.clone(), fault: Fault::None, exec_calls: 0 };
    let run = launch(ctx, &dry);
    let ok = ctx.run_case("real+fault", &dry, |_rep| judge(&dry, &run));
    if !ok || run.result.is_err() {
        return ok;
    }
    let mut n = 0u64;
    let parent_kinds = [ip::K_PIPE, ip::K_FCNTL, ip::K_FORK];
    let child_kinds = [ip::K_CHDIR, ip::K_DUP2, ip::K_SETUID, ip::K_SETGID, ip::K_SETPGID, ip::K_EXEC];
    let mut points: Vec<(usize, u32, bool)> = vec![];
    for k in parent_kinds {
        for i in 1..=run.parent_calls[k] {
            points.push((k, i, false));
        }
    }
    for k in child_kinds {
        for i in 1..=run.child_calls[k] {
            points.push((k, i, true));
        }
    }
    let dry_exec_calls = run.child_calls[ip::K_EXEC];
    for (kind, i, in_child) in points {
        n += 1;
        let errno = ERRNOS[(crate::runner::mix(salt, n) % ERRNOS.len() as u64) as usize];
        let case = LaunchCase { cfg: cfg.clone(), fault: Fault::Inject(kind, i, errno, in_child), exec_calls: dry_exec_calls };
        let run = launch(ctx, &case);
        let ok = ctx.run_case("real+fault", &case, |rep| {
            rep.nontrivial(format!("{}#{}|{}|{}|in{:?}out{:?}err{:?}", ip::KIND_NAMES[kind], i, if in_child { "child" } else { "parent" }, if cfg.detached { "det" } else { "att" }, cfg.stdin, cfg.stdout, cfg.stderr));
            if !run.fault_hit {
                return Err(Fail::new("C07:harness:fault-not-reached", format!("dry run counted this call but the fault was not reached: {:?}", case)));
            }
            judge(&case, &run)
        });
        if !ok {
            return false;
        }
    }
    // real causes
    for c in [RealCause::MissingProgram, RealCause::NoExecBit, RealCause::DirectoryAsProgram, RealCause::TextWithoutInterpreter, RealCause::MissingCwd, RealCause::CwdNotADirectory, RealCause::CwdTooLong, RealCause::MissingOnPath] {
        let case = LaunchCase { cfg: cfg.clone(), fault: Fault::Real(c), exec_calls: 0 };
        let run = launch(ctx, &case);
        let ok = ctx.run_case("real+fault", &case, |rep| {
            rep.nontrivial(format!("{:?}|{}|in{:?}out{:?}err{:?}", c, if cfg.detached { "det" } else { "att" }, cfg.stdin, cfg.stdout, cfg.stderr));
            judge(&case, &run)
        });
        if !ok {
            return false;
        }
    }
    true
}

fn all_configs() -> Vec<Config> {
    let mut v = vec![];
    let sks = [SK::None, SK::Pipe, SK::File];
    for stdin in sks {
        for stdout in [SK::None, SK::Pipe, SK::File, SK::Merge] {
            for stderr in [SK::None, SK::Pipe, SK::File, SK::Merge] {
                if stdout == SK::Merge && stderr == SK::Merge {
                    continue;
                }
                for detached in [false, true] {
                    for opts in 0..8u8 {
                        v.push(Config { stdin, stdout, stderr, detached, cwd: opts & 1 != 0, ids: opts & 2 != 0, setpgid: opts & 4 != 0, via_path: (opts ^ (opts >> 1)) & 1 != 0, closed_std: if (opts as usize + v.len()) % 3 == 0 { ((v.len() / 3) % 7 + 1) as u8 } else { 0 } });
                    }
                }
            }
        }
    }
    v
}

fn worker(ctx: &Ctx) {
    quiet_panics();
    match ctx.tier {
        Tier::Quick => {
            // 3 random configurations per worker, each fully enumerated
            let cfgs = ctx.sample("c07-configs", &config_strategy(), 8);
            for (i, c) in cfgs.iter().enumerate() {
                if !enumerate_config(ctx, c, ctx.sub_seed("errno") ^ i as u64) {
                    break;
                }
            }
        }
        Tier::Thorough => {
            let all = all_configs();
            for (i, c) in all.iter().enumerate() {
                if i % ctx.nworkers != ctx.worker {
                    continue;
                }
                if !enumerate_config(ctx, c, ctx.sub_seed("errno") ^ i as u64) {
                    break;
                }
            }
        }
    }
}

fn replay(ctx: &Ctx, _engine: &str, case: &Value) -> CaseResult {
    quiet_panics();
    let c: LaunchCase = serde_json::from_value(case.clone()).map_err(|e| Fail::new("bad-replay-file", e.to_string()))?;
    let run = launch(ctx, &c);
    println!("result={:?} parent_calls={:?} child_calls={:?} fault_hit={} fd_diff={:?} children={:?} report={}", run.result, run.parent_calls, run.child_calls, run.fault_hit, run.fd_diff, run.children, run.report.is_some());
    judge(&c, &run)
}

pub static C07: PropDef = PropDef {
    id: "C07",
    level: "fault_enumeration",
    rule: "for a configuration (stdin/stdout/stderr in {None, Pipe, File} plus the Merge forms, detached on/off, cwd, setuid+setgid (to 0), setpgid, command with slash / via PATH) a dry run counts the calls the crate makes of each kind: parent side pipe, fcntl(F_GETFD/F_SETFD), fork; child side chdir, dup2, setuid, setgid, setpgid, exec. Then every (kind, k) is failed once with an errno drawn from a list of 20 (three of them above 255, up to the kernel maximum 4095; EINTR, EBADF and ECHILD, which the parent could mistake for conditions of its own, included), and eight real causes are applied (missing program, no x bit, directory, text file without interpreter, missing / non-directory / over-long cwd, name missing on PATH). Quick = 128 random configurations, thorough = all 1056. Oracle: no fault -> Ok(Popen) and the helper's report exists (the image really started); fault -> Err(IoError) carrying the failing step's errno, no report, waitpid(-1) = ECHILD, descriptor table identical to before the call (the config's own files count as the attempt's). Non-trivial = a fault was injected or a real cause applied; distinct = distinct (configuration, fault) pairs. Every configuration also starts with a failing launch (missing program) made as the very first launch of a fresh thread, so that nothing the library keeps per thread has been set up by an earlier successful launch.",
    assumptions: &["faults are injected at the libc boundary by link-time interposition, in the parent and (through inherited statics) in the forked child", "setuid/setgid are exercised with id 0 (a no-op as root) so that the calls exist and can be failed"],
    engines: "real",
    workers: |_| 16,
    worker,
    replay,
    exhaustive: false,
};
