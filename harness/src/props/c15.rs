//! C15: program lookup follows PATH order and never runs something else.
use crate::interpose as ip;
use crate::props::c0104::quiet_panics;
use crate::real::*;
use crate::runner::*;
use proptest::prelude::*;
use serde::{Deserialize, Serialize};
use serde_json::Value;
use std::ffi::{OsStr, OsString};
use std::os::unix::ffi::{OsStrExt, OsStringExt};
use std::path::PathBuf;
use std::sync::atomic::Ordering::SeqCst;
use subprocess::{Popen, PopenConfig, PopenError};

#[derive(Clone, Copy, Debug, PartialEq, Serialize, Deserialize)]
pub enum Entry {
    Missing,
    EmptyDir,
    /// regular file of that name without x bits (EACCES)
    NoExec,
    /// a directory of that name (EACCES)
    SubDir,
    /// executable text file without `#!` (ENOEXEC)
    Text,
    Runnable,
    /// empty string (leading / trailing / double colon)
    Empty,
    Dup(u8),
    /// longer than PATH_MAX (ENAMETOOLONG)
    TooLong,
    /// the entry is a regular file, not a directory (ENOTDIR)
    NotADir,
    /// relative path (to the harness's cwd) of a directory with a runnable candidate
    RelRunnable,
    /// an empty sub-directory of the NEXT entry's directory (PATH=A/Bin:A)
    InsideNext,
}

#[derive(Clone, Copy, Debug, PartialEq, Serialize, Deserialize)]
pub enum Slash {
    /// "./name" relative to the child's cwd
    DotSlash,
    /// "Sub/name" (the harness's own directories start with a capital letter, generated names never do)
    Sub,
    Absolute,
}

#[derive(Clone, Debug, Serialize, Deserialize)]
pub struct PathCase {
    pub name: String,
    pub entries: Vec<Entry>,
    pub via_executable: bool,
    /// Some: the command contains a slash (no search); bool = does the target exist
    pub slash: Option<(Slash, bool)>,
    /// the PATH directories have names that are not valid UTF-8
    #[serde(default)]
    pub non_utf8: bool,
    pub cwd: bool,
}

fn mkfile(p: &std::path::Path, content: &[u8], mode: u32) {
    std::fs::write(p, content).unwrap();
    chmod(p, mode);
}

pub fn check_case(ctx: &Ctx, case: &PathCase, rep: &mut CaseReport) -> CaseResult {
    let sc = Scratch::new(&ctx.scratch, "c15");
    let root = sc.dir.clone();
    let prefix = sc.path("rep");
    let name = OsStr::new(&case.name);
    reap_all();
    let fail = |sig: &str, msg: String| Err(Fail::new(format!("C15:{}", sig), format!("{}\ncase={:?}", msg, case)));
    let old_cwd = std::env::current_dir().unwrap();
    std::env::set_current_dir(&root).unwrap();
    let old_path = std::env::var_os("PATH");

    let mk_runnable_dir = |d: &std::path::Path| {
        std::fs::create_dir_all(d).unwrap();
        chmod(d, 0o777);
        link_vchild(d, name);
        set_mode(d, "report", &[&prefix.to_string_lossy(), "0", ""]);
    };

    // materialise PATH
    let mut path_strs: Vec<OsString> = vec![];
    // per entry: (directory, Option<errno>) ; None errno = runnable
    let mut model: Vec<Option<(PathBuf, Option<i32>)>> = vec![];
    for (i, e) in case.entries.iter().enumerate() {
        let d = if case.non_utf8 {
            let mut n = format!("D{}", i).into_bytes();
            n.push(0xff);
            n.push(b'x');
            root.join(OsStr::from_bytes(&n))
        } else {
            root.join(format!("D{}", i))
        };
        let dir_of = |j: usize| -> PathBuf {
            if case.non_utf8 {
                let mut n = format!("D{}", j).into_bytes();
                n.push(0xff);
                n.push(b'x');
                root.join(OsStr::from_bytes(&n))
            } else {
                root.join(format!("D{}", j))
            }
        };
        match e {
            Entry::InsideNext => {
                let usable = matches!(case.entries.get(i + 1), Some(Entry::Missing | Entry::EmptyDir | Entry::NoExec | Entry::SubDir | Entry::Text | Entry::Runnable));
                let dd = if usable { dir_of(i + 1).join("Bin") } else { d.clone() };
                std::fs::create_dir_all(&dd).unwrap();
                path_strs.push(dd.clone().into_os_string());
                model.push(Some((dd, Some(libc::ENOENT))));
            }
            Entry::Missing => {
                path_strs.push(d.clone().into_os_string());
                model.push(Some((d, Some(libc::ENOENT))));
            }
            Entry::EmptyDir => {
                std::fs::create_dir_all(&d).unwrap();
                path_strs.push(d.clone().into_os_string());
                model.push(Some((d, Some(libc::ENOENT))));
            }
            Entry::NoExec => {
                std::fs::create_dir_all(&d).unwrap();
                mkfile(&d.join(name), b"not executable", 0o644);
                path_strs.push(d.clone().into_os_string());
                model.push(Some((d, Some(libc::EACCES))));
            }
            Entry::SubDir => {
                std::fs::create_dir_all(d.join(name)).unwrap();
                path_strs.push(d.clone().into_os_string());
                model.push(Some((d, Some(libc::EACCES))));
            }
            Entry::Text => {
                std::fs::create_dir_all(&d).unwrap();
                mkfile(&d.join(name), b"echo this is not a binary\n", 0o755);
                path_strs.push(d.clone().into_os_string());
                model.push(Some((d, Some(libc::ENOEXEC))));
            }
            Entry::Runnable => {
                mk_runnable_dir(&d);
                path_strs.push(d.clone().into_os_string());
                model.push(Some((d, None)));
            }
            Entry::Empty => {
                path_strs.push(OsString::new());
                model.push(None);
            }
            Entry::Dup(j) => {
                if i == 0 {
                    path_strs.push(OsString::new());
                    model.push(None);
                } else {
                    let j = *j as usize % i;
                    path_strs.push(path_strs[j].clone());
                    model.push(model[j].clone());
                }
            }
            Entry::TooLong => {
                let mut s = root.clone().into_os_string();
                s.push("/");
                s.push("x".repeat(5000));
                path_strs.push(s);
                model.push(Some((d, Some(libc::ENAMETOOLONG))));
            }
            Entry::NotADir => {
                mkfile(&d, b"plain file", 0o644);
                path_strs.push(d.clone().into_os_string());
                model.push(Some((d, Some(libc::ENOTDIR))));
            }
            Entry::RelRunnable => {
                if case.cwd {
                    // relative entries are only meaningful without a child cwd
                    mk_runnable_dir(&d);
                    path_strs.push(d.clone().into_os_string());
                } else {
                    mk_runnable_dir(&d);
                    path_strs.push(d.file_name().unwrap().to_os_string());
                }
                model.push(Some((d, None)));
            }
        }
    }
    let mut path_val: Vec<u8> = vec![];
    for (i, s) in path_strs.iter().enumerate() {
        if i > 0 {
            path_val.push(b':');
        }
        path_val.extend_from_slice(s.as_bytes());
    }
    if path_val.is_empty() {
        path_val.push(b':'); // the property is about non-empty PATH values
    }
    std::env::set_var("PATH", OsString::from_vec(path_val.clone()));

    // the child's cwd and the slash forms
    let cwd_dir = root.join("Cwd");
    std::fs::create_dir_all(cwd_dir.join("Sub")).unwrap();
    chmod(&cwd_dir, 0o777);
    let mut command: OsString = name.to_owned();
    let mut slash_expect: Option<Option<PathBuf>> = None; // Some(Some(dir)) = must run from dir; Some(None) = must fail ENOENT
    if let Some((kind, exists)) = case.slash {
        let base = if case.cwd { cwd_dir.clone() } else { root.clone() };
        let (cmd, dir) = match kind {
            Slash::DotSlash => (OsString::from(format!("./{}", case.name)), base.clone()),
            Slash::Sub => (OsString::from(format!("Sub/{}", case.name)), base.join("Sub")),
            Slash::Absolute => {
                let d = root.join("Abs");
                let mut c = d.clone().into_os_string();
                c.push("/");
                c.push(name);
                (c, d)
            }
        };
        command = cmd;
        if exists {
            mk_runnable_dir(&dir);
            slash_expect = Some(Some(dir));
        } else {
            slash_expect = Some(None);
        }
        // decoys: the same relative name under every PATH directory that exists,
        // which must NOT be used for a name with a slash
        for m in model.iter().flatten() {
            if m.0.is_dir() && kind == Slash::Sub {
                let dd = m.0.join("Sub");
                if std::fs::create_dir_all(&dd).is_ok() {
                    mk_runnable_dir(&dd);
                }
            }
        }
    }

    // a bare name is never looked up in the working directory (empty PATH entries are
    // skipped, not taken for "."): a runnable decoy of that name sits in the child's cwd
    if case.slash.is_none() {
        let here = if case.cwd { cwd_dir.clone() } else { root.clone() };
        if !here.join(name).exists() {
            link_vchild(&here, name);
            set_mode(&here, "report", &[&prefix.to_string_lossy(), "0", ""]);
        }
    }

    // expected outcome
    let candidates: Vec<&(PathBuf, Option<i32>)> = model.iter().flatten().collect();
    let winner: Option<PathBuf> = match &slash_expect {
        Some(x) => x.clone(),
        None => candidates.iter().find(|c| c.1.is_none()).map(|c| c.0.clone()),
    };
    let errnos: Vec<i32> = match &slash_expect {
        Some(_) => vec![libc::ENOENT],
        None => {
            let mut v: Vec<i32> = candidates.iter().take_while(|c| c.1.is_some()).filter_map(|c| c.1).collect();
            if v.is_empty() {
                v.push(libc::ENOENT);
            }
            v
        }
    };
    let skipped: Vec<&'static str> = match &slash_expect {
        Some(_) => vec![],
        None => candidates
            .iter()
            .take_while(|c| c.1.is_some())
            .map(|c| match c.1 {
                Some(libc::ENOENT) => "enoent",
                Some(libc::EACCES) => "eacces",
                Some(libc::ENOEXEC) => "enoexec",
                Some(libc::ENAMETOOLONG) => "toolong",
                Some(libc::ENOTDIR) => "enotdir",
                _ => "other",
            })
            .collect::<std::collections::BTreeSet<_>>()
            .into_iter()
            .collect(),
    };
    let has_empty = model.iter().any(|m| m.is_none());
    if !skipped.is_empty() || winner.is_none() || case.slash.is_some() {
        rep.nontrivial(format!(
            "win:{}|skipped:{}|empty{}|slash:{}|exe{}|cwd{}",
            match (&winner, &slash_expect) {
                (None, _) => "none".to_string(),
                (Some(_), Some(_)) => "given".to_string(),
                (Some(w), None) => {
                    let pos = candidates.iter().position(|c| &c.0 == w).unwrap_or(0);
                    if pos == 0 { "first".into() } else if pos < 3 { "early".into() } else { "late".into() }
                }
            },
            skipped.join("+"),
            has_empty as u8,
            match case.slash { None => "-".to_string(), Some((k, e)) => format!("{:?}{}", k, if e { "" } else { "-missing" }) },
            case.via_executable as u8,
            case.cwd as u8
        ));
    }

    // run
    let argv: Vec<OsString> = if case.via_executable { vec![OsString::from("display-name"), OsString::from("arg1")] } else { vec![command.clone(), OsString::from("arg1")] };
    let cfg = PopenConfig {
        executable: if case.via_executable { Some(command.clone()) } else { None },
        cwd: if case.cwd { Some(cwd_dir.clone().into_os_string()) } else { None },
        ..Default::default()
    };
    ip::counters_reset();
    let res = Popen::create(&argv, cfg);
    let restore = || {
        match &old_path {
            Some(p) => std::env::set_var("PATH", p),
            None => std::env::remove_var("PATH"),
        }
        let _ = std::env::set_current_dir(&old_cwd);
    };
    let out = (|| -> CaseResult {
        match res {
            Ok(mut p) => {
                let pid = p.pid().unwrap_or(0);
                let st = p.wait();
                let r = read_report(&prefix, pid, 3000);
                match (&winner, r) {
                    (None, r) => fail(
                        if candidates.is_empty() && slash_expect.is_none() { "success-with-only-empty-entries" } else { "success-without-candidate" },
                        format!("PATH={:?}: Popen::create returned Ok although nothing can be started (child exit {:?}, report {})", String::from_utf8_lossy(&path_val[..path_val.len().min(300)]), st, r.map(|r| format!("from {:?}", r.exe_path())).unwrap_or_else(|| "none: no program ran".into())),
                    ),
                    (Some(_), None) => fail("no-report", format!("Ok(Popen) but the program left no report (exit {:?})", st)),
                    (Some(w), Some(r)) => {
                        let exe = r.exe_path();
                        let got_dir = exe.parent().map(|p| p.to_path_buf()).unwrap_or_default();
                        let same = match (std::fs::metadata(&got_dir), std::fs::metadata(w)) {
                            (Ok(a), Ok(b)) => {
                                use std::os::unix::fs::MetadataExt;
                                a.dev() == b.dev() && a.ino() == b.ino()
                            }
                            _ => false,
                        };
                        if !same || exe.file_name() != Some(name) {
                            let kind = if case.slash.is_some() { "slash-name-searched-or-misplaced" } else { "wrong-candidate" };
                            return fail(kind, format!("ran {:?}, expected the candidate under {:?} (PATH={:?})", exe, w, String::from_utf8_lossy(&path_val[..path_val.len().min(300)])));
                        }
                        Ok(())
                    }
                }
            }
            Err(e) => {
                reap_all();
                let os = match &e {
                    PopenError::IoError(io) => io.raw_os_error(),
                    _ => None,
                };
                match &winner {
                    Some(w) => fail("runnable-candidate-not-started", format!("error {} although {:?} holds a runnable candidate (PATH={:?})", e, w, String::from_utf8_lossy(&path_val[..path_val.len().min(300)]))),
                    None => {
                        if os.map(|o| errnos.contains(&o)).unwrap_or(false) {
                            // nothing may have run
                            if !read_reports(&prefix, 1, 0).is_empty() {
                                return fail("error-but-something-ran", format!("error {} but a report exists", e));
                            }
                            Ok(())
                        } else {
                            fail("wrong-errno", format!("error {} (os {:?}); the candidates produce {:?}", e, os, errnos))
                        }
                    }
                }
            }
        }
    })();
    restore();
    reap_all();
    out
}

pub fn case_strategy() -> impl Strategy<Value = PathCase> {
    let entry = prop_oneof![
        3 => Just(Entry::Missing), 3 => Just(Entry::EmptyDir), 3 => Just(Entry::NoExec), 2 => Just(Entry::SubDir), 2 => Just(Entry::Text),
        4 => Just(Entry::Runnable), 4 => Just(Entry::Empty), 2 => any::<u8>().prop_map(Entry::Dup), 1 => Just(Entry::TooLong), 1 => Just(Entry::NotADir), 1 => Just(Entry::RelRunnable), 2 => Just(Entry::InsideNext)
    ];
    let name = prop_oneof![
        4 => "[a-z][a-z0-9_.-]{0,10}",
        1 => (1usize..256).prop_map(|n| "n".repeat(n)),
        1 => Just("x".to_string()),
        1 => "[a-z]{1,3} [a-z]{1,3}",
    ];
    let entries = prop_oneof![
        8 => prop::collection::vec(entry, 1..13),
        1 => prop::collection::vec(Just(Entry::Empty), 1..5),
        1 => Just(vec![]),
    ];
    let slash = prop_oneof![
        5 => Just(None),
        2 => (prop_oneof![Just(Slash::DotSlash), Just(Slash::Sub), Just(Slash::Absolute)], prop_oneof![3 => Just(true), 1 => Just(false)]).prop_map(Some),
    ];
    (name, entries, any::<bool>(), slash, any::<bool>(), prop_oneof![3 => Just(false), 1 => Just(true)]).prop_map(|(name, entries, via_executable, slash, cwd, non_utf8)| PathCase { name, entries, via_executable, slash, cwd, non_utf8 })
}

fn worker(ctx: &Ctx) {
    quiet_panics();
    let n = ctx.tier.pick(500, 5000);
    ctx.explore("real", "c15", case_strategy(), n, 300, |c, rep| check_case(ctx, c, rep));
    let _ = ip::COUNTING.load(SeqCst);
}

fn replay(ctx: &Ctx, _engine: &str, case: &Value) -> CaseResult {
    quiet_panics();
    let c: PathCase = serde_json::from_value(case.clone()).map_err(|e| Fail::new("bad-replay-file", e.to_string()))?;
    let mut rep = CaseReport::default();
    check_case(ctx, &c, &mut rep)
}

pub static C15: PropDef = PropDef {
    id: "C15",
    level: "exploration",
    rule: "proptest generates a scratch tree and a PATH of 0..12 entries, each one of {missing directory, directory without the command, regular file without x bits, sub-directory of that name, executable text file without #!, hard link of the helper (runnable), empty string, duplicate of an earlier entry, entry longer than PATH_MAX, a plain file as entry, relative entry}, PATH values made only of empty entries, command names of 1..255 bytes, the same through `executable`, and names with a slash (./x, sub/x, absolute; existing or not; with and without a child cwd; decoys of the same relative name under the PATH directories). Oracle: independent lookup model over the generated tree: the first non-empty entry with a runnable candidate is the program that runs (it reports /proc/self/exe; directory identity by dev/ino); if none is runnable the call fails with one of the errnos the skipped candidates produce (ENOENT when there is no candidate) and no helper report appears; a name with a slash runs exactly that path relative to the child's cwd. Non-trivial = at least one skipped candidate before the winner, or no winner, or a name with a slash. A quarter of the cases use directory names that are not valid UTF-8; an entry may be an empty sub-directory of the next entry's directory (PATH=A/Bin:A). For every name without a slash a runnable decoy of that name sits in the child's working directory: empty PATH entries are skipped, not taken for the current directory.",
    assumptions: &["the harness sets its own PATH and cwd for the duration of a case (single-threaded worker)", "runs as root: `not executable` is a file without any x bit"],
    engines: "real",
    workers: |_| 16,
    worker,
    replay,
    exhaustive: false,
};
