//! C13: pipelines connect stage i to stage i+1 and nothing else, however composed.
use crate::props::c0104::{quiet_panics, PANIC_MSG};
use crate::real::*;
use crate::runner::*;
use proptest::prelude::*;
use serde::{Deserialize, Serialize};
use serde_json::Value;
use std::io::{Read, Seek, Write};
use std::os::unix::io::{AsRawFd, FromRawFd};
use std::panic::{catch_unwind, AssertUnwindSafe};
use subprocess::{Exec, ExitStatus, Pipeline, Redirection};

#[derive(Clone, Debug, Serialize, Deserialize)]
pub struct Stage {
    pub nlines: u8,
    pub delay_ms: u8,
    pub exit_code: u8,
    /// the stage writes 20 000 tagged lines to stderr in one burst (several pipe
    /// capacities) instead of `nlines`
    #[serde(default)]
    pub bulk_err: bool,
}

impl Stage {
    fn err_lines(&self) -> u32 {
        if self.bulk_err {
            20_000
        } else {
            self.nlines as u32
        }
    }
}

#[derive(Clone, Copy, Debug, PartialEq, Serialize, Deserialize)]
pub enum PIn {
    Inherit,
    Pipe,
    File,
    Data,
}
#[derive(Clone, Copy, Debug, PartialEq, Serialize, Deserialize)]
pub enum POut {
    Inherit,
    Pipe,
    File,
}
#[derive(Clone, Copy, Debug, PartialEq, Serialize, Deserialize)]
pub enum PErr {
    Inherit,
    ToFile,
}
#[derive(Clone, Copy, Debug, PartialEq, Serialize, Deserialize)]
pub enum PTerm {
    Join,
    Capture,
    Popen,
    StreamStdin,
    StreamStdout,
    Communicate,
}

#[derive(Clone, Debug, Serialize, Deserialize)]
pub struct PipeCase {
    pub stages: Vec<Stage>,
    /// composition: split choices consumed while building the tree (see build)
    pub splits: Vec<u8>,
    pub use_iter: bool,
    /// apply stdin to the left operand and stdout to the right operand before the root `|`
    pub config_on_operands: bool,
    /// with config_on_operands and a root of the form `pipeline | exec`: set the
    /// output on the left pipeline before the last command is appended
    #[serde(default)]
    pub stdout_on_left: bool,
    /// the host runs with its own fd 1 closed and the stderr sink file was opened
    /// in that state, i.e. it sits on descriptor 1 (only with a stderr file and
    /// nothing inherited on stdin/stdout)
    #[serde(default)]
    pub sink_on_fd1: bool,
    pub stdin: PIn,
    pub stdout: POut,
    pub stderr: PErr,
    pub term: PTerm,
    pub data_len: u32,
    pub data_seed: u8,
}

fn data(case: &PipeCase) -> Vec<u8> {
    (0..case.data_len as u64).map(|i| crate::simk::content_byte(crate::simk::Content::Hash, case.data_seed, i)).collect()
}

fn expected_output(n: usize, input: &[u8]) -> Vec<u8> {
    let mut v = input.to_vec();
    for i in 0..n {
        let tag = format!("T{}", i + 1);
        let mut w = format!("{}[", tag).into_bytes();
        w.extend_from_slice(&v);
        w.extend_from_slice(format!("]{}", tag).as_bytes());
        v = w;
    }
    v
}

fn expected_err_lines(case: &PipeCase) -> Vec<String> {
    let mut v = vec![];
    for (i, s) in case.stages.iter().enumerate() {
        for k in 0..s.err_lines() {
            v.push(format!("E:T{}:{}", i + 1, k));
        }
    }
    v.sort();
    v
}

enum Node {
    E(Exec),
    P(Pipeline),
}

/// Stream configuration to be applied to the operands of the root `|`
/// (what is left in here after `build` is applied to the result instead).
#[derive(Default)]
struct RootCfg {
    stdin: Option<Redirection>,
    stdin_data: Option<Vec<u8>>,
    stdout: Option<Redirection>,
    stderr_to: Option<std::fs::File>,
    applied: bool,
    stdout_on_left: bool,
}

/// Build the composition tree over stages [lo, hi) using the split choices.
fn build(execs: &mut Vec<Option<Exec>>, lo: usize, hi: usize, splits: &[u8], pos: &mut usize, shape: &mut String, root_cfg: &mut Option<RootCfg>, is_root: bool) -> Node {
    if hi - lo == 1 {
        shape.push('e');
        return Node::E(execs[lo].take().unwrap());
    }
    // choose split k in (lo, hi): right = [k, hi); if right has >= 2 stages the left must too
    let c = splits.get(*pos).copied().unwrap_or(0) as usize;
    *pos += 1;
    let mut cands: Vec<usize> = vec![];
    for k in lo + 1..hi {
        let rl = hi - k;
        let ll = k - lo;
        if rl == 1 || ll >= 2 {
            cands.push(k);
        }
    }
    let k = cands[c % cands.len()];
    shape.push('(');
    let left = build(execs, lo, k, splits, pos, shape, root_cfg, false);
    shape.push('|');
    let right = build(execs, k, hi, splits, pos, shape, root_cfg, false);
    shape.push(')');
    match (left, right) {
        (Node::E(a), Node::E(b)) => Node::P(a | b),
        (Node::P(a), Node::E(b)) => {
            let mut a = a;
            if is_root {
                if let Some(c) = root_cfg.as_mut() {
                    a = apply_left(a, c);
                    if c.stdout_on_left {
                        // appending a command keeps the pipeline's configured output
                        if let Some(r) = c.stdout.take() {
                            a = a.stdout(r);
                            c.applied = true;
                        }
                    }
                }
            }
            Node::P(a | b)
        }
        (Node::P(a), Node::P(b)) => {
            let (mut a, mut b) = (a, b);
            if is_root {
                if let Some(c) = root_cfg.as_mut() {
                    a = apply_left(a, c);
                    if let Some(r) = c.stdout.take() {
                        b = b.stdout(r);
                        c.applied = true;
                    }
                }
            }
            Node::P(a | b)
        }
        (Node::E(_), Node::P(_)) => unreachable!("split rule excludes Exec | Pipeline"),
    }
}

fn apply_left(mut a: Pipeline, c: &mut RootCfg) -> Pipeline {
    if let Some(r) = c.stdin.take() {
        a = a.stdin(r);
        c.applied = true;
    }
    if let Some(d) = c.stdin_data.take() {
        a = a.stdin(d);
        c.applied = true;
    }
    if let Some(f) = c.stderr_to.take() {
        a = a.stderr_to(f);
        c.applied = true;
    }
    a
}

fn shape_class(shape: &str, n: usize) -> &'static str {
    // left-deep: ((..(e|e)|e)|e)
    let left_deep = {
        let mut s = String::new();
        for _ in 0..n - 1 {
            s.push('(');
        }
        s.push_str("e|e)");
        for _ in 0..n.saturating_sub(2) {
            s.push_str("|e)");
        }
        s
    };
    if shape == "iter" {
        "iter"
    } else if shape == left_deep {
        "left-deep"
    } else {
        "nested"
    }
}

pub fn check_case(ctx: &Ctx, case: &PipeCase, rep: &mut CaseReport) -> CaseResult {
    let sc = Scratch::new(&ctx.scratch, "c13");
    let helper = vchild_path();
    let n = case.stages.len();
    let markers = sc.subdir("markers");
    let input = data(case);
    let mut execs: Vec<Option<Exec>> = case
        .stages
        .iter()
        .enumerate()
        .map(|(i, s)| {
            Some(Exec::cmd(&helper).arg("stage").arg(format!("T{}", i + 1)).arg(s.err_lines().to_string()).arg(s.delay_ms.to_string()).arg(s.exit_code.to_string()).arg(&markers).arg(i.to_string()))
        })
        .collect();

    // files
    let in_path = sc.path("in");
    std::fs::write(&in_path, &input).unwrap();
    let out_path = sc.path("out");
    let err_path = sc.path("err");
    let out_file = std::fs::OpenOptions::new().create(true).read(true).write(true).open(&out_path).unwrap();
    let err_file = std::fs::OpenOptions::new().create(true).read(true).write(true).append(true).open(&err_path).unwrap();
    let in_file = std::fs::File::open(&in_path).unwrap();

    // stream configuration values
    let mk_in = |k: PIn| -> Option<Redirection> {
        match k {
            PIn::Inherit => None,
            PIn::Pipe => Some(Redirection::Pipe),
            PIn::File => Some(Redirection::File(std::fs::File::open(&in_path).unwrap())),
            PIn::Data => None, // handled separately
        }
    };
    let mk_out = |k: POut| -> Option<Redirection> {
        match k {
            POut::Inherit => None,
            POut::Pipe => Some(Redirection::Pipe),
            POut::File => Some(Redirection::File(out_file.try_clone().unwrap())),
        }
    };

    // build
    let mut shape = String::new();
    let on_operands = case.config_on_operands && !case.use_iter;
    let want_stderr_to = case.stderr == PErr::ToFile && !matches!(case.term, PTerm::Capture | PTerm::Communicate);
    let low_sink = case.sink_on_fd1 && want_stderr_to && case.stdin != PIn::Inherit && case.stdout != POut::Inherit;
    // (closed until everything that may sit on fd 1 is gone again)
    let low_guard = if low_sink { Some(CloseGuard::new(2)) } else { None };
    let sink_for_cfg = || -> std::fs::File {
        if low_sink {
            let n = unsafe { libc::fcntl(err_file.as_raw_fd(), libc::F_DUPFD_CLOEXEC, 0) };
            if n >= 0 {
                return unsafe { std::fs::File::from_raw_fd(n) };
            }
        }
        err_file.try_clone().unwrap()
    };
    let full_cfg = || RootCfg {
        stdin: mk_in(case.stdin),
        stdin_data: if case.stdin == PIn::Data { Some(input.clone()) } else { None },
        stdout: mk_out(case.stdout),
        stderr_to: if want_stderr_to { Some(sink_for_cfg()) } else { None },
        applied: false,
        stdout_on_left: case.stdout_on_left,
    };
    let mut root_cfg = if on_operands { Some(full_cfg()) } else { None };
    let mut pipeline: Pipeline = if case.use_iter {
        shape.push_str("iter");
        Pipeline::from_exec_iter(execs.iter_mut().map(|e| e.take().unwrap()).collect::<Vec<_>>())
    } else {
        let mut pos = 0;
        match build(&mut execs, 0, n, &case.splits, &mut pos, &mut shape, &mut root_cfg, true) {
            Node::P(p) => p,
            Node::E(_) => unreachable!(),
        }
    };
    // whatever was not applied on the operands is applied to the result
    let mut rest = root_cfg.unwrap_or_else(full_cfg);
    let applied_on_operands = rest.applied;
    if let Some(r) = rest.stdin.take() {
        pipeline = pipeline.stdin(r);
    }
    if let Some(d) = rest.stdin_data.take() {
        pipeline = pipeline.stdin(d);
    }
    if let Some(r) = rest.stdout.take() {
        pipeline = pipeline.stdout(r);
    }
    if let Some(f) = rest.stderr_to.take() {
        pipeline = pipeline.stderr_to(f);
    }

    // classification
    let sclass = shape_class(&shape, n);
    if n >= 3 || sclass == "nested" || input.len() > 65536 {
        rep.nontrivial(format!("n{}|{}|cfgop{}|in{:?}|out{:?}|err{:?}|{:?}|data{}", n, sclass, applied_on_operands as u8, case.stdin, case.stdout, case.stderr, case.term, if input.len() > 65536 { ">64K" } else if input.is_empty() { "0" } else { "<=64K" }));
    }

    // inherited streams: replace our own fds for the duration
    let inh_in = if case.stdin == PIn::Inherit { Some(&in_file) } else { None };
    let inh_out = if case.stdout == POut::Inherit && !matches!(case.term, PTerm::Capture | PTerm::Communicate | PTerm::StreamStdout) { Some(&out_file) } else { None };
    let inh_err = if case.stderr == PErr::Inherit && !matches!(case.term, PTerm::Capture | PTerm::Communicate) { Some(&err_file) } else { None };

    PANIC_MSG.with(|m| *m.borrow_mut() = None);
    let term = case.term;
    let last_code = case.stages[n - 1].exit_code as u32;
    let input2 = input.clone();
    let run = catch_unwind(AssertUnwindSafe(|| -> Result<(Option<Vec<u8>>, Option<Vec<u8>>, Option<ExitStatus>), String> {
        let _g = StdGuard::new([inh_in, inh_out, inh_err]);
        match term {
            PTerm::Join => {
                let st = pipeline.join().map_err(|e| e.to_string())?;
                Ok((None, None, Some(st)))
            }
            PTerm::Capture => {
                let c = pipeline.capture().map_err(|e| e.to_string())?;
                Ok((Some(c.stdout), Some(c.stderr), Some(c.exit_status)))
            }
            PTerm::Communicate => {
                let mut c = pipeline.communicate().map_err(|e| e.to_string())?;
                let (o, e) = c.read().map_err(|e| e.to_string())?;
                Ok((o, e, None))
            }
            PTerm::Popen => {
                let mut v = pipeline.popen().map_err(|e| e.to_string())?;
                let w = v[0].stdin.take();
                let writer = w.map(|mut w| {
                    let d = input2.clone();
                    std::thread::spawn(move || {
                        let _ = w.write_all(&d);
                    })
                });
                let mut out = None;
                let last = v.len() - 1;
                if let Some(mut o) = v[last].stdout.take() {
                    let mut b = vec![];
                    o.read_to_end(&mut b).map_err(|e| e.to_string())?;
                    out = Some(b);
                }
                if let Some(t) = writer {
                    let _ = t.join();
                }
                // every Popen except the first has no stdin handle, every one except the last no stdout
                let mut st = None;
                for (i, p) in v.iter_mut().enumerate() {
                    let s = p.wait().map_err(|e| e.to_string())?;
                    if i == last {
                        st = Some(s);
                    }
                }
                Ok((out, None, st))
            }
            PTerm::StreamStdin => {
                let mut w = pipeline.stream_stdin().map_err(|e| e.to_string())?;
                w.write_all(&input2).map_err(|e| e.to_string())?;
                drop(w);
                Ok((None, None, None))
            }
            PTerm::StreamStdout => {
                let mut r = pipeline.stream_stdout().map_err(|e| e.to_string())?;
                let mut b = vec![];
                r.read_to_end(&mut b).map_err(|e| e.to_string())?;
                drop(r);
                Ok((Some(b), None, None))
            }
        }
    }));
    drop(low_guard);
    let fail = |sig: &str, msg: String| Err(Fail::new(format!("C13:{}", sig), format!("{}\nshape={} case={:?}", msg, shape, case)));
    let (got_out, got_err, status) = match run {
        Err(_) => {
            reap_all();
            return fail("panic", PANIC_MSG.with(|m| m.borrow_mut().take()).unwrap_or_default());
        }
        Ok(Err(e)) => {
            reap_all();
            return fail("error", e);
        }
        Ok(Ok(x)) => x,
    };
    // all commands have exited and were reaped (communicate detaches: skip)
    if term != PTerm::Communicate {
        if let Err(e) = child_audit() {
            return fail("not-all-reaped", format!("after {:?} returned: {}", term, e));
        }
    } else {
        // wait for the detached children to finish, then reap them ourselves
        wait_until(10_000, || {
            let mut st = 0;
            loop {
                let r = unsafe { crate::interpose::raw_waitpid(-1, &mut st, libc::WNOHANG) };
                if r <= 0 {
                    break r < 0;
                }
            }
        });
        reap_all();
    }
    // exit status of the last command
    if let Some(st) = status {
        if st != ExitStatus::Exited(last_code) {
            let which = case.stages.iter().position(|s| ExitStatus::Exited(s.exit_code as u32) == st);
            return fail("wrong-exit-status", format!("{:?} returned {:?}; last command exits with {} (that status belongs to stage {:?})", term, st, last_code, which));
        }
    }
    // where does the input come from / the output go
    let eff_input: Vec<u8> = match (case.stdin, term) {
        (_, PTerm::StreamStdin) => input.clone(),
        (PIn::Pipe, PTerm::Popen) => input.clone(),
        (PIn::Pipe, _) => vec![],
        _ => input.clone(),
    };
    let want = expected_output(n, &eff_input);
    let out_bytes: Vec<u8> = match got_out {
        Some(b) => b,
        None => {
            let mut f = std::fs::File::open(&out_path).unwrap();
            let mut b = vec![];
            f.read_to_end(&mut b).unwrap();
            b
        }
    };
    if out_bytes != want {
        let d = out_bytes.iter().zip(&want).position(|(a, b)| a != b).unwrap_or(out_bytes.len().min(want.len()));
        let head = |v: &[u8]| String::from_utf8_lossy(&v[..v.len().min(60)]).into_owned();
        let tail = |v: &[u8]| String::from_utf8_lossy(&v[v.len().saturating_sub(40)..]).into_owned();
        let kind = if out_bytes.is_empty() { "output-missing" } else if out_bytes.len() < want.len() && want.len() - out_bytes.len() < 20 * n { "stage-skipped-or-truncated" } else { "output-differs" };
        return fail(kind, format!("output has {} bytes, expected {} (first difference at {}): head {:?} tail {:?}; expected head {:?} tail {:?}", out_bytes.len(), want.len(), d, head(&out_bytes), tail(&out_bytes), head(&want), tail(&want)));
    }
    // stderr sink: exactly the multiset of all stages' lines
    let err_bytes: Vec<u8> = match got_err {
        Some(b) => b,
        None => {
            let mut f = err_file.try_clone().unwrap();
            f.seek(std::io::SeekFrom::Start(0)).unwrap();
            let mut b = vec![];
            f.read_to_end(&mut b).unwrap();
            b
        }
    };
    let mut lines: Vec<String> = String::from_utf8_lossy(&err_bytes).lines().map(|s| s.to_string()).collect();
    lines.sort();
    let want_lines = expected_err_lines(case);
    if lines != want_lines {
        let missing: Vec<&String> = want_lines.iter().filter(|l| !lines.contains(l)).collect();
        let extra: Vec<&String> = lines.iter().filter(|l| !want_lines.contains(l)).collect();
        return fail("stderr-lines", format!("stderr sink has {} lines, expected {}; missing {:?}, unexpected {:?}", lines.len(), want_lines.len(), &missing[..missing.len().min(5)], &extra[..extra.len().min(5)]));
    }
    Ok(())
}

pub fn case_strategy() -> impl Strategy<Value = PipeCase> {
    let stage = (0u8..6, prop_oneof![3 => Just(0u8), 1 => 1u8..40], any::<u8>(), prop_oneof![9 => Just(false), 1 => Just(true)]).prop_map(|(nlines, delay_ms, exit_code, bulk_err)| Stage { nlines, delay_ms, exit_code, bulk_err });
    let len = prop_oneof![2 => Just(0u32), 3 => 1u32..5000, 2 => 60_000u32..70_000, 2 => 0u32..300_000];
    (
        prop::collection::vec(stage, 2..9),
        prop::collection::vec(any::<u8>(), 8),
        prop_oneof![5 => Just(false), 1 => Just(true)],
        (any::<bool>(), any::<bool>(), prop_oneof![3 => Just(false), 1 => Just(true)]),
        prop_oneof![Just(PIn::Inherit), Just(PIn::Pipe), Just(PIn::File), Just(PIn::Data)],
        prop_oneof![Just(POut::Inherit), Just(POut::Pipe), Just(POut::File)],
        prop_oneof![Just(PErr::Inherit), Just(PErr::ToFile)],
        prop_oneof![Just(PTerm::Join), Just(PTerm::Capture), Just(PTerm::Popen), Just(PTerm::StreamStdin), Just(PTerm::StreamStdout), Just(PTerm::Communicate)],
        len,
        any::<u8>(),
    )
        .prop_map(|(stages, splits, use_iter, (config_on_operands, stdout_on_left, sink_on_fd1), stdin, stdout, stderr, term, data_len, data_seed)| {
            // make the stream kinds fit the terminator (construction)
            let (stdin, stdout) = match term {
                PTerm::Join => (if matches!(stdin, PIn::Pipe | PIn::Data) { PIn::File } else { stdin }, if stdout == POut::Pipe { POut::File } else { stdout }),
                PTerm::Capture | PTerm::Communicate => (if stdin == PIn::Pipe { PIn::Data } else { stdin }, POut::Pipe),
                PTerm::Popen => (if stdin == PIn::Data { PIn::Pipe } else { stdin }, stdout),
                PTerm::StreamStdin => (PIn::Pipe, if stdout == POut::Pipe { POut::File } else { stdout }),
                PTerm::StreamStdout => (if matches!(stdin, PIn::Pipe | PIn::Data) { PIn::File } else { stdin }, POut::Pipe),
            };
            PipeCase { stages, splits, use_iter, config_on_operands, stdout_on_left, sink_on_fd1, stdin, stdout, stderr, term, data_len, data_seed }
        })
}

fn worker(ctx: &Ctx) {
    quiet_panics();
    let n = ctx.tier.pick(200, 2500);
    ctx.explore("real", "c13", case_strategy(), n, 200, |c, rep| check_case(ctx, c, rep));
}

fn replay(ctx: &Ctx, _engine: &str, case: &Value) -> CaseResult {
    quiet_panics();
    let c: PipeCase = serde_json::from_value(case.clone()).map_err(|e| Fail::new("bad-replay-file", e.to_string()))?;
    let mut rep = CaseReport::default();
    let r = check_case(ctx, &c, &mut rep);
    println!("class: {:?}", rep.class);
    r
}

pub static C13: PropDef = PropDef {
    id: "C13",
    level: "exploration",
    rule: "proptest generates 2..8 stages (helper filter that wraps its whole input as Ti[...]Ti, writes 0..5 tagged lines to stderr, optional delay after closing stdout, exit code 0..255), a composition tree over the stage sequence realised with Exec|Exec, Pipeline|Exec, Pipeline|Pipeline or from_exec_iter, stream configuration applied to the result or to the operands of the root `|`, stdin in {inherit (the harness's fd 0 is a temp file), pipe, file, data}, stdout in {inherit, pipe, file}, stderr in {inherit, stderr_to(file), captured}, data of 0..300 KB, and a fitting terminator (join, capture, popen, stream_stdin, stream_stdout, communicate). Oracle: bytes at the configured output equal Tn[..T2[T1[input]T1]T2..]Tn (non-commutative, so skipped / repeated / swapped stages and wrong end points all show), the stderr sink holds exactly the multiset of all stages' lines, join/capture return the last stage's exit status, and when they return no child of the harness is left (zombie audit). Non-trivial = n >= 3, or a non-left-deep shape, or data larger than one pipe capacity. Operand-level configuration also covers the output set on the left pipeline before the last command is appended; a quarter of the cases with a stderr file open it while the host's own fd 1 is closed, so that the sink sits on descriptor 1. A tenth of the stages write 20 000 stderr lines in one burst (several pipe capacities).",
    assumptions: &["helper stages terminate when their input ends", "stream configuration on individual Exec operands (other than through the Pipeline) is not generated: the crate refuses it"],
    engines: "real",
    workers: |_| 16,
    worker,
    replay,
    exhaustive: false,
};
