//! C01-C04: communicate (engine simk, plus a real-process tier).
use crate::interpose as ip;
use crate::runner::*;
use crate::simk::*;
use proptest::prelude::*;
use serde::{Deserialize, Serialize};
use serde_json::Value;
use std::fs::File;
use std::os::unix::io::FromRawFd;
use std::time::Duration;
use subprocess::{Popen, PopenConfig};

#[derive(Clone, Debug, Serialize, Deserialize)]
pub struct InputSpec {
    pub len: u32,
    pub seed: u32,
    pub kind: Content,
}
impl InputSpec {
    pub fn bytes(&self) -> Vec<u8> {
        (0..self.len as u64).map(|i| content_byte(self.kind, 0, i + self.seed as u64 * 131)).collect()
    }
}

#[derive(Clone, Debug, Serialize, Deserialize)]
pub struct ReadSpec {
    /// set a new size limit before this read
    pub size: Option<u32>,
    /// set a new time limit (ns) before this read
    pub time_ns: Option<u64>,
}

#[derive(Clone, Debug, Serialize, Deserialize)]
pub struct SimkCase {
    pub template: String,
    pub sim: SimCfg,
    pub input: InputSpec,
    pub reads: Vec<ReadSpec>,
    /// use read_string instead of read
    pub string_variant: bool,
    /// the child terminates on its own (no Flood / endless silence)
    pub finite: bool,
    /// an unlimited read() that returned Ok has completed the exchange (all output
    /// at EOF, all input delivered, stdin closed): the child must be able to reach its
    /// end with the parent's pipe ends exactly as they are at that moment - the caller
    /// may well wait for it before dropping the Communicator
    #[serde(default)]
    pub wait_before_drop: bool,
}

#[derive(Clone, Debug)]
pub struct ReadRec {
    pub size_limit: Option<usize>,
    pub time_limit: Option<u64>,
    pub t_start: i64,
    pub t_end: i64,
    pub deadline: Option<i64>,
    pub ok: bool,
    pub err_kind: Option<std::io::ErrorKind>,
    pub err_os: Option<i32>,
    pub out: Option<Vec<u8>>,
    pub err: Option<Vec<u8>>,
    pub out_s: Option<String>,
    pub err_s: Option<String>,
    pub eof_out: bool,
    pub eof_err: bool,
    pub polls_after_deadline: u32,
    pub io_after_deadline: u32,
    pub ops_from: usize,
    pub ops_to: usize,
    pub drain: bool,
    /// input bytes accepted by the stdin pipe before / after this read
    pub input_before: usize,
    pub input_after: usize,
    /// poll() would report the stdin pipe writable at the start / end of this read
    pub stdin_room_start: bool,
    pub stdin_room_end: bool,
}

pub struct Outcome {
    pub reads: Vec<ReadRec>,
    pub finished: bool,
    pub input: Vec<u8>,
    pub wrote: [Vec<u8>; 3],
    pub child_read: Vec<u8>,
    pub child_saw_eof: bool,
    pub child_done: bool,
    pub child_done_op: Option<usize>,
    pub child_died_sigpipe: bool,
    pub input_accepted: Vec<u8>,
    pub verdict: Option<Verdict>,
    pub ops: Vec<POp>,
    pub panicked: Option<String>,
    pub short_reads_hit: u32,
    pub short_writes_hit: u32,
    pub blocked_first: Option<&'static str>,
    pub stdin_closed_by_parent: bool,
    pub ncalls: u64,
    pub eintr_hit: u32,
}

thread_local! {
    static POPEN: std::cell::RefCell<Option<Popen>> = const { std::cell::RefCell::new(None) };
    pub static PANIC_MSG: std::cell::RefCell<Option<String>> = const { std::cell::RefCell::new(None) };
}

pub fn quiet_panics() {
    std::panic::set_hook(Box::new(|info| {
        let msg = format!("{}", info);
        PANIC_MSG.with(|m| *m.borrow_mut() = Some(msg));
    }));
}

fn with_popen<R>(f: impl FnOnce(&mut Popen) -> R) -> R {
    POPEN.with(|p| {
        let mut p = p.borrow_mut();
        if p.is_none() {
            let mut po = Popen::create(&["true"], PopenConfig::default()).expect("cannot spawn `true`");
            po.wait().ok();
            *p = Some(po);
        }
        f(p.as_mut().unwrap())
    })
}

fn placeholder_fd() -> i32 {
    unsafe {
        let fd = libc::open(b"/dev/null\0".as_ptr() as *const libc::c_char, libc::O_RDWR | libc::O_CLOEXEC);
        assert!(fd >= 0 && (fd as usize) < ip::FD_CAP);
        fd
    }
}

const TEN_YEARS_NS: u64 = 10 * 365 * 86400 * 1_000_000_000;

/// Execute a case against the real Communicator code on the simulated kernel.
pub fn run_simk(case: &SimkCase) -> Outcome {
    let input = case.input.bytes();
    let mut sim = Box::new(Sim::new(case.sim.clone(), input.len()));
    let streams = case.sim.streams;
    let mut files: [Option<File>; 3] = [None, None, None];
    for i in 0..3 {
        if streams & (1 << i) != 0 {
            let fd = placeholder_fd();
            ip::route_fd(fd, i as u32);
            files[i] = Some(unsafe { File::from_raw_fd(fd) });
        }
    }
    let simp: *mut Sim = &mut *sim;
    unsafe { ip::sim_install(simp as *mut dyn ip::SimHooks) };
    ip::VCLOCK_NS.store(sim.now, std::sync::atomic::Ordering::SeqCst);
    ip::SIM_CLOCK.store(true, std::sync::atomic::Ordering::SeqCst);

    let mut reads: Vec<ReadRec> = vec![];
    let mut finished = false;
    let input_opt = if streams & 1 != 0 { Some(input.clone()) } else { None };
    PANIC_MSG.with(|m| *m.borrow_mut() = None);
    let string_variant = case.string_variant;
    let specs = case.reads.clone();
    let finite = case.finite;

    ip::IN_LIB.store(true, std::sync::atomic::Ordering::SeqCst);
    let res = std::panic::catch_unwind(std::panic::AssertUnwindSafe(|| {
        let [f0, f1, f2] = std::mem::take(&mut files);
        let mut comm = Some(with_popen(|p| {
            p.stdin = f0;
            p.stdout = f1;
            p.stderr = f2;
            p.communicate_start(input_opt)
        }));
        let mut size_limit: Option<usize> = None;
        let mut time_limit: Option<u64> = None;
        let mut i = 0usize;
        let max_reads = specs.len() + 60;
        loop {
            let sim = unsafe { &mut *simp };
            let drain = i >= specs.len();
            if drain {
                if !finite {
                    break;
                }
                // drain: long time limit, generous size limit
                let mut c = comm.take().unwrap();
                if time_limit.is_some() && time_limit != Some(TEN_YEARS_NS) {
                    c = c.limit_time(Duration::from_nanos(TEN_YEARS_NS));
                    time_limit = Some(TEN_YEARS_NS);
                }
                if let Some(s) = size_limit {
                    if s < (1 << 20) {
                        c = c.limit_size(1 << 20);
                        size_limit = Some(1 << 20);
                    }
                }
                comm = Some(c);
            } else {
                let mut c = comm.take().unwrap();
                if let Some(s) = specs[i].size {
                    c = c.limit_size(s as usize);
                    size_limit = Some(s as usize);
                }
                if let Some(t) = specs[i].time_ns {
                    c = c.limit_time(if t == u64::MAX { Duration::MAX } else { Duration::from_nanos(t) });
                    time_limit = Some(t);
                }
                comm = Some(c);
            }
            sim.cur_call = i as u32;
            sim.budget_extra += 256;
            sim.idle_streak = 0;
            let t_start = sim.now;
            let deadline = time_limit.map(|t| t_start.saturating_add(t.min(i64::MAX as u64 / 2) as i64));
            sim.cur_deadline = deadline;
            sim.polls_after_deadline = 0;
            sim.io_after_deadline = 0;
            let ops_from = sim.ops.len();
            let c = comm.as_mut().unwrap();
            let mut rec = ReadRec {
                size_limit,
                time_limit,
                t_start,
                t_end: 0,
                deadline,
                ok: false,
                err_kind: None,
                err_os: None,
                out: None,
                err: None,
                out_s: None,
                err_s: None,
                eof_out: false,
                eof_err: false,
                polls_after_deadline: 0,
                io_after_deadline: 0,
                ops_from,
                ops_to: 0,
                drain,
                input_before: sim.input_accepted.len(),
                input_after: 0,
                stdin_room_start: sim.pipes[0].as_ref().map(|p| p.writer_open && p.reader_open && p.writable()).unwrap_or(false),
                stdin_room_end: false,
            };
            if string_variant {
                match c.read_string() {
                    Ok((o, e)) => {
                        rec.ok = true;
                        rec.out_s = o;
                        rec.err_s = e;
                    }
                    Err(ce) => {
                        rec.err_kind = Some(ce.error.kind());
                        rec.err_os = ce.error.raw_os_error();
                        rec.out = ce.capture.0;
                        rec.err = ce.capture.1;
                    }
                }
            } else {
                match c.read() {
                    Ok((o, e)) => {
                        rec.ok = true;
                        rec.out = o;
                        rec.err = e;
                    }
                    Err(ce) => {
                        rec.err_kind = Some(ce.error.kind());
                        rec.err_os = ce.error.raw_os_error();
                        rec.out = ce.capture.0;
                        rec.err = ce.capture.1;
                    }
                }
            }
            let sim = unsafe { &mut *simp };
            rec.t_end = sim.now;
            rec.ops_to = sim.ops.len();
            rec.input_after = sim.input_accepted.len();
            rec.stdin_room_end = sim.pipes[0].as_ref().map(|p| p.writer_open && p.reader_open && p.writable()).unwrap_or(false);
            rec.polls_after_deadline = sim.polls_after_deadline;
            rec.io_after_deadline = sim.io_after_deadline;
            sim.cur_deadline = None;
            let eof = |i: usize, sim: &Sim| sim.pipes[i].as_ref().map(|p| !p.writer_open && p.len() == 0).unwrap_or(true);
            rec.eof_out = eof(1, sim);
            rec.eof_err = eof(2, sim);
            let ok = rec.ok;
            let timed_out = rec.err_kind == Some(std::io::ErrorKind::TimedOut) || rec.err_kind == Some(std::io::ErrorKind::Interrupted);
            let empty = rec.out.as_ref().map(|v| v.is_empty()).unwrap_or(true)
                && rec.err.as_ref().map(|v| v.is_empty()).unwrap_or(true)
                && rec.out_s.as_ref().map(|v| v.is_empty()).unwrap_or(true)
                && rec.err_s.as_ref().map(|v| v.is_empty()).unwrap_or(true);
            reads.push(rec);
            i += 1;
            if sim.verdict.is_some() {
                break;
            }
            if ok && (size_limit.is_none() || empty) {
                finished = true;
                break;
            }
            if !ok && !timed_out {
                break;
            }
            if i >= max_reads {
                break;
            }
        }
        if case.wait_before_drop && finished && finite && specs.iter().all(|r| r.size.is_none()) {
            let sim = unsafe { &mut *simp };
            if sim.verdict.is_none() && sim.wait_child() == Some(false) {
                sim.verdict = Some(Verdict::Deadlock(format!("read() returned Ok, yet a waitpid() issued before the Communicator is dropped would never return: child is {:?} at script op {}", sim.cstate, sim.pc)));
            }
        }
        drop(comm);
    }));
    ip::IN_LIB.store(false, std::sync::atomic::Ordering::SeqCst);
    // whatever happened, release everything before the simulator goes away
    drop(files);
    with_popen(|p| {
        p.stdin = None;
        p.stdout = None;
        p.stderr = None;
    });
    let stdin_closed = sim.pipes[0].as_ref().map(|p| !p.writer_open).unwrap_or(true);
    ip::sim_uninstall();
    let panicked = match res {
        Ok(()) => None,
        Err(_) => Some(PANIC_MSG.with(|m| m.borrow_mut().take()).unwrap_or_else(|| "panic".into())),
    };
    let sim = *sim;
    Outcome {
        reads,
        finished,
        input,
        wrote: sim.wrote,
        child_read: sim.child_read,
        child_saw_eof: sim.child_saw_eof,
        child_done: sim.cstate == ChildState::Done,
        child_done_op: sim.child_done_at.map(|x| x.1),
        child_died_sigpipe: sim.child_died_sigpipe,
        input_accepted: sim.input_accepted,
        verdict: sim.verdict,
        ops: sim.ops,
        panicked,
        short_reads_hit: sim.short_reads_hit,
        short_writes_hit: sim.short_writes_hit,
        blocked_first: sim.parent_blocked_first,
        stdin_closed_by_parent: stdin_closed,
        ncalls: sim.ncalls,
        eintr_hit: sim.eintr_hit,
    }
}

// ---------------------------------------------------------------------------
// Judges
// ---------------------------------------------------------------------------

fn is_prefix(a: &[u8], of: &[u8]) -> bool {
    a.len() <= of.len() && &of[..a.len()] == a
}

fn first_diff(a: &[u8], b: &[u8]) -> usize {
    a.iter().zip(b).position(|(x, y)| x != y).unwrap_or(a.len().min(b.len()))
}

fn describe(case: &SimkCase, o: &Outcome) -> String {
    let mut s = String::new();
    s.push_str(&format!(
        "streams={:03b} caps={:?} flavour={:?} template={} input_len={} script={:?}\n",
        case.sim.streams, case.sim.caps, case.sim.flavour, case.template, o.input.len(), case.sim.script
    ));
    s.push_str(&format!(
        "child wrote out={} err={} read={} saw_eof={} done={} sigpipe={}; parent calls={} verdict={:?} finished={}\n",
        o.wrote[1].len(),
        o.wrote[2].len(),
        o.child_read.len(),
        o.child_saw_eof,
        o.child_done,
        o.child_died_sigpipe,
        o.ncalls,
        o.verdict,
        o.finished
    ));
    for (i, r) in o.reads.iter().enumerate().take(12) {
        s.push_str(&format!(
            "read#{} size_limit={:?} time_limit={:?} t=[{}..{}] deadline={:?} ok={} err={:?}/{:?} out={:?} err={:?} eof=({},{}) after_deadline(polls={},io={})\n",
            i,
            r.size_limit,
            r.time_limit,
            r.t_start - 1_000_000_000_000,
            r.t_end - 1_000_000_000_000,
            r.deadline.map(|d| d - 1_000_000_000_000),
            r.ok,
            r.err_kind,
            r.err_os,
            r.out.as_ref().map(|v| v.len()).or(r.out_s.as_ref().map(|v| v.len())),
            r.err.as_ref().map(|v| v.len()).or(r.err_s.as_ref().map(|v| v.len())),
            r.eof_out,
            r.eof_err,
            r.polls_after_deadline,
            r.io_after_deadline
        ));
    }
    if o.reads.len() > 12 {
        s.push_str(&format!("... {} reads in total\n", o.reads.len()));
    }
    s
}

pub fn common_checks(prop: &str, case: &SimkCase, o: &Outcome) -> CaseResult {
    if let Some(p) = &o.panicked {
        return Err(Fail::new(format!("{}:panic", prop), format!("library panicked: {}\n{}", p, describe(case, o))));
    }
    Ok(())
}

pub fn judge_c01(case: &SimkCase, o: &Outcome) -> CaseResult {
    common_checks("C01", case, o)?;
    match &o.verdict {
        Some(Verdict::Deadlock(d)) => {
            let kind = if d.contains("waitpid()") {
                "parent-in-wait"
            } else if d.contains("write(stdin)") {
                "parent-in-write"
            } else if d.contains("read(") {
                "parent-in-read"
            } else {
                "parent-in-poll"
            };
            return Err(Fail::new(format!("C01:deadlock:{}", kind), format!("{}\n{}", d, describe(case, o))));
        }
        Some(Verdict::Spin(d)) => {
            return Err(Fail::new("C01:spin", format!("{}\n{}", d, describe(case, o))));
        }
        _ => {}
    }
    // bounded tail after the child closed everything (unlimited reads only)
    if let Some(done_op) = o.child_done_op {
        if let Some(r) = o.reads.iter().find(|r| r.ops_to > done_op) {
            if r.size_limit.is_none() && r.time_limit.is_none() {
                let tail = r.ops_to - done_op.max(r.ops_from);
                // data still buffered when the child finished has to be read:
                // at most poll+read per byte with 1-byte short reads
                let out_rest: usize = r.out.as_ref().map(|v| v.len()).unwrap_or(0) + r.err.as_ref().map(|v| v.len()).unwrap_or(0);
                let bound = 3 * out_rest + 24;
                if tail > bound {
                    return Err(Fail::new("C01:tail-after-child-done", format!("{} parent calls after the child had closed everything (bound {})\n{}", tail, bound, describe(case, o))));
                }
            }
        }
    }
    // a finite child and no limits: the call must have returned (Ok or Err)
    if case.finite && o.reads.is_empty() {
        return Err(Fail::new("C01:no-return", describe(case, o)));
    }
    Ok(())
}

fn concat(o: &Outcome) -> (Vec<u8>, Vec<u8>, String, String) {
    let mut a = vec![];
    let mut b = vec![];
    let mut sa = String::new();
    let mut sb = String::new();
    for r in &o.reads {
        if let Some(v) = &r.out {
            a.extend_from_slice(v);
        }
        if let Some(v) = &r.err {
            b.extend_from_slice(v);
        }
        if let Some(v) = &r.out_s {
            sa.push_str(v);
        }
        if let Some(v) = &r.err_s {
            sb.push_str(v);
        }
    }
    (a, b, sa, sb)
}

pub fn judge_c02(case: &SimkCase, o: &Outcome) -> CaseResult {
    common_checks("C02", case, o)?;
    if let Some(Verdict::Spin(d)) = &o.verdict {
        // "end-of-file immediately after the last byte even while output is still being
        // produced": a child that produces output until its input has arrived went on
        // for megabytes because the input (or its end) was being withheld
        if d.contains("while waiting for its input") {
            return Err(Fail::new("C02:input-withheld-while-output-is-produced", format!("{}\n{}", d, describe(case, o))));
        }
    }
    if o.verdict.is_some() {
        return Ok(()); // hang verdicts belong to C01/C04
    }
    let piped = |i: usize| case.sim.streams & (1 << i) != 0;
    // presence / absence of streams in every result
    for r in &o.reads {
        let (has_out, has_err) = if case.string_variant && r.ok { (r.out_s.is_some(), r.err_s.is_some()) } else { (r.out.is_some(), r.err.is_some()) };
        if has_out != piped(1) || has_err != piped(2) {
            return Err(Fail::new(
                "C02:stream-presence",
                format!("stdout piped={} reported={}, stderr piped={} reported={}\n{}", piped(1), has_out, piped(2), has_err, describe(case, o)),
            ));
        }
    }
    // nothing but the input was ever written to stdin, in order
    if !is_prefix(&o.input_accepted, &o.input) {
        let d = first_diff(&o.input_accepted, &o.input);
        return Err(Fail::new(
            "C02:input-corrupted",
            format!("bytes written to stdin diverge from the input at offset {} (accepted {} of {})\n{}", d, o.input_accepted.len(), o.input.len(), describe(case, o)),
        ));
    }
    let (a, b, sa, sb) = concat(o);
    let single_string_read = case.string_variant && o.reads.len() == 1;
    if !case.string_variant {
        // captured data is always a prefix of what the child wrote
        for (name, got, truth) in [("stdout", &a, &o.wrote[1]), ("stderr", &b, &o.wrote[2])] {
            if !is_prefix(got, truth) {
                let d = first_diff(got, truth);
                let kind = if is_prefix(got, if name == "stdout" { &o.wrote[2] } else { &o.wrote[1] }) && !got.is_empty() { "wrong-stream" } else { "corrupted" };
                return Err(Fail::new(
                    format!("C02:output-{}:{}", kind, name),
                    format!("{} returned {} bytes, child wrote {}; first difference at {}\n{}", name, got.len(), truth.len(), d, describe(case, o)),
                ));
            }
        }
    }
    if o.finished {
        if !case.string_variant {
            for (name, got, truth) in [("stdout", &a, &o.wrote[1]), ("stderr", &b, &o.wrote[2])] {
                if got != truth {
                    return Err(Fail::new(
                        format!("C02:output-truncated:{}", name),
                        format!("exchange finished: {} returned {} bytes, child wrote {}\n{}", name, got.len(), truth.len(), describe(case, o)),
                    ));
                }
            }
        } else if single_string_read {
            for (name, got, truth) in [("stdout", &sa, &o.wrote[1]), ("stderr", &sb, &o.wrote[2])] {
                let want = String::from_utf8_lossy(truth);
                if got != &*want {
                    return Err(Fail::new(format!("C02:string-variant:{}", name), format!("read_string differs from lossy decoding of the bytes the child wrote ({} vs {} chars)\n{}", got.len(), want.len(), describe(case, o))));
                }
            }
        }
        // whole input delivered
        if piped(0) && o.input_accepted != o.input {
            return Err(Fail::new("C02:input-incomplete", format!("call succeeded but only {} of {} input bytes were written\n{}", o.input_accepted.len(), o.input.len(), describe(case, o))));
        }
        if piped(0) && !o.stdin_closed_by_parent {
            return Err(Fail::new("C02:stdin-not-closed", describe(case, o)));
        }
    }
    // child's view
    if !is_prefix(&o.child_read, &o.input) {
        return Err(Fail::new("C02:child-read-corrupted", describe(case, o)));
    }
    if piped(0) && o.child_saw_eof && o.child_read != o.input {
        return Err(Fail::new("C02:eof-before-all-input", format!("child saw EOF after {} of {} bytes\n{}", o.child_read.len(), o.input.len(), describe(case, o))));
    }
    // EOF immediately after the last byte: close(stdin) before the next poll
    if piped(0) {
        let mut acc = 0usize;
        let mut last_write: Option<usize> = None;
        for (i, op) in o.ops.iter().enumerate() {
            if op.kind == PKind::Write && op.ret > 0 {
                acc += op.ret as usize;
                if acc == o.input.len() {
                    last_write = Some(i);
                    break;
                }
            }
        }
        if o.input.is_empty() {
            // no non-empty write at all
            if o.ops.iter().any(|op| op.kind == PKind::Write && op.ret > 0) {
                return Err(Fail::new("C02:write-with-empty-input", describe(case, o)));
            }
        }
        if let Some(i) = last_write {
            let mut closed = false;
            for op in &o.ops[i + 1..] {
                match op.kind {
                    PKind::Close if op.obj == 0 => {
                        closed = true;
                        break;
                    }
                    PKind::Poll => break,
                    PKind::Write => break,
                    _ => {}
                }
            }
            if !closed {
                return Err(Fail::new(
                    "C02:eof-not-immediate",
                    format!("stdin was not closed right after the last input byte was written (op #{})\n{}", i, describe(case, o)),
                ));
            }
        }
    }
    Ok(())
}

/// Length of a run of limit-cut reads without any input progress that counts as
/// "the input is no longer being delivered".
pub const STARVE_RUN: usize = 24;

pub fn judge_c03(case: &SimkCase, o: &Outcome) -> CaseResult {
    common_checks("C03", case, o)?;
    match &o.verdict {
        Some(Verdict::Spin(d)) | Some(Verdict::Deadlock(d)) => {
            // a read that never returns cannot "return at most n bytes"
            if o.reads.last().map(|r| r.size_limit.is_some()).unwrap_or(false) {
                return Err(Fail::new("C03:limited-read-never-returns", format!("{}\n{}", d, describe(case, o))));
            }
            return Ok(());
        }
        Some(_) => return Ok(()),
        None => {}
    }
    for (i, r) in o.reads.iter().enumerate() {
        let lo = r.out.as_ref().map(|v| v.len()).unwrap_or(0) + r.out_s.as_ref().map(|v| v.len()).unwrap_or(0);
        let le = r.err.as_ref().map(|v| v.len()).unwrap_or(0) + r.err_s.as_ref().map(|v| v.len()).unwrap_or(0);
        if let Some(n) = r.size_limit {
            if !case.string_variant && lo + le > n {
                return Err(Fail::new("C03:limit-exceeded", format!("read #{} returned {}+{} bytes with size limit {}\n{}", i, lo, le, n, describe(case, o))));
            }
            if r.ok && lo + le == 0 {
                let piped = |i: usize| case.sim.streams & (1 << i) != 0;
                if (piped(1) && !r.eof_out) || (piped(2) && !r.eof_err) {
                    return Err(Fail::new("C03:empty-before-eof", format!("read #{} returned all-empty Ok while a stream was not at end-of-file\n{}", i, describe(case, o))));
                }
            }
        }
    }
    // "while a read is cut short by the limit the remaining input keeps being
    // delivered by later reads": a run of STARVE_RUN consecutive reads, each cut
    // short by its limit, each starting and ending with input pending and the
    // stdin pipe writable, must have delivered at least one byte of input
    {
        let mut run = 0usize;
        let mut run_from = 0usize;
        for (i, r) in o.reads.iter().enumerate() {
            let got = r.out.as_ref().map(|v| v.len()).unwrap_or(0) + r.err.as_ref().map(|v| v.len()).unwrap_or(0);
            let cut = r.ok && !r.drain && r.size_limit.map(|n| got >= n).unwrap_or(false);
            let starved = cut && r.input_before < o.input.len() && r.input_after == r.input_before && r.stdin_room_start && r.stdin_room_end;
            if starved {
                if run == 0 {
                    run_from = i;
                }
                run += 1;
                if run >= STARVE_RUN {
                    return Err(Fail::new(
                        "C03:input-starved",
                        format!("reads #{}..#{} were all cut short by their size limit and none delivered a byte of the {} pending input bytes although the stdin pipe was writable throughout\n{}", run_from, i, o.input.len() - r.input_before, describe(case, o)),
                    ));
                }
            } else {
                run = 0;
            }
        }
    }
    if !case.string_variant {
        let (a, b, _, _) = concat(o);
        for (name, got, truth) in [("stdout", &a, &o.wrote[1]), ("stderr", &b, &o.wrote[2])] {
            if !is_prefix(got, truth) {
                let d = first_diff(got, truth);
                let kind = if got.len() > d && truth.len() > d { "corrupted" } else { "overlap-or-extra" };
                return Err(Fail::new(format!("C03:pieces-{}:{}", kind, name), format!("concatenated pieces diverge from what the child wrote at offset {} ({} vs {})\n{}", d, got.len(), truth.len(), describe(case, o))));
            }
            if o.finished && got != truth {
                return Err(Fail::new(format!("C03:pieces-lost:{}", name), format!("after the final empty read {} bytes of {} were returned\n{}", got.len(), truth.len(), describe(case, o))));
            }
        }
    }
    if o.finished && case.sim.streams & 1 != 0 && o.input_accepted != o.input {
        return Err(Fail::new("C03:input-incomplete", describe(case, o)));
    }
    if !is_prefix(&o.input_accepted, &o.input) {
        return Err(Fail::new("C03:input-corrupted", describe(case, o)));
    }
    Ok(())
}

pub fn judge_c04(case: &SimkCase, o: &Outcome) -> CaseResult {
    common_checks("C04", case, o)?;
    if let Some(Verdict::Overrun(d)) = &o.verdict {
        return Err(Fail::new("C04:overrun-unbounded", format!("{}\n{}", d, describe(case, o))));
    }
    if let Some(Verdict::Spin(d)) = &o.verdict {
        if o.reads.iter().any(|r| r.time_limit.is_some()) {
            return Err(Fail::new("C04:spin", format!("{}\n{}", d, describe(case, o))));
        }
    }
    for (i, r) in o.reads.iter().enumerate() {
        let timed_out = r.err_kind == Some(std::io::ErrorKind::TimedOut);
        match r.deadline {
            None => {
                if timed_out {
                    return Err(Fail::new("C04:timeout-without-limit", format!("read #{} reported TimedOut although no time limit was set\n{}", i, describe(case, o))));
                }
            }
            Some(d) => {
                if timed_out && r.t_end < d - 1_000_000 {
                    return Err(Fail::new(
                        "C04:timeout-early",
                        format!("read #{} reported TimedOut {} ns before the limit elapsed\n{}", i, d - r.t_end, describe(case, o)),
                    ));
                }
                // lateness: at most one bounded I/O step after the deadline
                let slack = 1_000_000 + 16 * case.sim.cost_ns as i64;
                if r.t_end > d.saturating_add(slack) {
                    return Err(Fail::new(
                        "C04:returns-late",
                        format!("read #{} returned {} ns after its deadline (allowed: one bounded I/O step = {} ns)\n{}", i, r.t_end - d, slack, describe(case, o)),
                    ));
                }
                if r.polls_after_deadline > 2 || r.io_after_deadline > 6 {
                    return Err(Fail::new(
                        "C04:overrun",
                        format!("read #{}: {} polls and {} reads/writes entered after the deadline (returned {} ns late)\n{}", i, r.polls_after_deadline, r.io_after_deadline, r.t_end - d, describe(case, o)),
                    ));
                }
            }
        }
    }
    if o.verdict.is_some() {
        return Ok(());
    }
    // continuity over the history
    if !case.string_variant {
        let (a, b, _, _) = concat(o);
        for (name, got, truth) in [("stdout", &a, &o.wrote[1]), ("stderr", &b, &o.wrote[2])] {
            if !is_prefix(got, truth) {
                let d = first_diff(got, truth);
                return Err(Fail::new(format!("C04:resume-corrupted:{}", name), format!("pieces across timed-out and successful reads diverge at offset {}\n{}", d, describe(case, o))));
            }
            if o.finished && got != truth {
                return Err(Fail::new(format!("C04:resume-lost:{}", name), format!("{} of {} bytes returned over the whole history\n{}", got.len(), truth.len(), describe(case, o))));
            }
        }
    }
    if !is_prefix(&o.input_accepted, &o.input) {
        return Err(Fail::new("C04:input-corrupted", describe(case, o)));
    }
    if o.finished && case.sim.streams & 1 != 0 && o.input_accepted != o.input {
        return Err(Fail::new("C04:input-incomplete", describe(case, o)));
    }
    Ok(())
}

// ---------------------------------------------------------------------------
// Generators
// ---------------------------------------------------------------------------

fn cap_strategy() -> impl Strategy<Value = u32> {
    prop_oneof![5 => Just(4096u32), 2 => Just(8192u32), 2 => Just(16384u32), 3 => Just(65536u32), 1 => Just(1u32 << 20)]
}

fn size_near(cap: u32) -> impl Strategy<Value = u32> {
    prop_oneof![
        2 => Just(0u32),
        2 => Just(1u32),
        1 => Just(4095u32),
        2 => Just(4096u32),
        1 => Just(4097u32),
        1 => Just(cap - 1),
        2 => Just(cap),
        2 => Just(cap + 1),
        3 => (0u32..5000).prop_map(move |k| 2 * cap + k),
        4 => 0u32..20000,
        2 => 0u32..300_000,
        1 => (0u32..2_000_000).prop_map(move |k| if cap <= 65536 { k / 4 } else { k }),
    ]
}

fn chunk_strategy() -> impl Strategy<Value = u32> {
    prop_oneof![Just(1u32), Just(7u32), Just(512u32), Just(4096u32), Just(4097u32), Just(65536u32), 1u32..70000]
}

fn out_stream() -> impl Strategy<Value = u8> {
    prop_oneof![3 => Just(1u8), 2 => Just(2u8)]
}

fn sleep_ns() -> impl Strategy<Value = u64> {
    prop_oneof![Just(1_000u64), Just(1_000_000u64), 1u64..5_000_000, Just(50_000_000u64), Just(2_000_000_000u64)]
}

/// Well-formed scripts built from templates; returns (name, script).
fn script_strategy(cap: u32, allow_flood: bool) -> BoxedStrategy<(String, Vec<COp>, bool)> {
    let silent = prop_oneof![
        Just(vec![]),
        chunk_strategy().prop_map(|c| vec![COp::ReadAll(c)]),
        sleep_ns().prop_map(|d| vec![COp::Sleep(d), COp::Exit]),
        (chunk_strategy(), sleep_ns()).prop_map(|(c, d)| vec![COp::ReadAll(c), COp::Sleep(d)]),
    ]
    .prop_map(|s| ("silent".to_string(), s, true));
    let cat = (out_stream(), chunk_strategy()).prop_map(|(to, chunk)| ("cat".to_string(), vec![COp::Cat { to, chunk }], true));
    let consume_then_answer = (chunk_strategy(), size_near(cap), size_near(cap), any::<bool>()).prop_map(|(c, n, m, swap)| {
        let (a, b) = if swap { (2, 1) } else { (1, 2) };
        ("consume-then-answer".to_string(), vec![COp::ReadAll(c), COp::Write { to: a, n }, COp::Write { to: b, n: m }], true)
    });
    let answer_first = (size_near(cap), size_near(cap), chunk_strategy(), any::<bool>()).prop_map(|(n, m, c, swap)| {
        let (a, b) = if swap { (2, 1) } else { (1, 2) };
        ("answer-before-reading".to_string(), vec![COp::Write { to: a, n }, COp::Write { to: b, n: m }, COp::ReadAll(c)], true)
    });
    let pingpong = (prop::collection::vec((chunk_strategy(), out_stream()), 1..12), chunk_strategy()).prop_map(|(v, c)| {
        let mut s: Vec<COp> = v.into_iter().map(|(n, to)| COp::Copy { n, to }).collect();
        s.push(COp::ReadAll(c));
        ("ping-pong".to_string(), s, true)
    });
    let interleaved = prop::collection::vec((out_stream(), prop_oneof![Just(1u32), 1u32..200, Just(4096u32), 1u32..9000, size_near(cap)]), 1..14).prop_map(|v| {
        let mut s: Vec<COp> = v.into_iter().map(|(to, n)| COp::Write { to, n }).collect();
        s.push(COp::ReadAll(4096));
        ("interleaved-writes".to_string(), s, true)
    });
    let early_close = (0u8..3, size_near(cap), size_near(cap), chunk_strategy(), 0u32..3).prop_map(|(which, n, m, c, pre)| {
        let mut s = vec![];
        if pre == 1 {
            s.push(COp::ReadIn(c));
        }
        if pre == 2 {
            s.push(COp::Write { to: 1, n: 10 });
        }
        s.push(COp::Close(which));
        s.push(COp::Write { to: 1, n });
        s.push(COp::Write { to: 2, n: m });
        s.push(COp::ReadAll(c));
        ("early-close".to_string(), s, true)
    });
    let early_exit = (chunk_strategy(), 0u32..5000).prop_map(|(c, n)| ("early-exit".to_string(), vec![COp::ReadIn(c), COp::Write { to: 1, n }, COp::Exit], true));
    let trickle = (prop::collection::vec((out_stream(), 1u32..40, sleep_ns()), 1..25), any::<bool>()).prop_map(|(v, read_first)| {
        let mut s = vec![];
        if read_first {
            s.push(COp::ReadAll(4096));
        }
        for (to, n, d) in v {
            s.push(COp::Write { to, n });
            s.push(COp::Sleep(d));
        }
        ("trickle".to_string(), s, true)
    });
    let close_in_full = (sleep_ns(), size_near(cap)).prop_map(|(d, n)| {
        // closes stdin while the parent is still feeding it, keeps stdout open for a while
        ("close-stdin-early".to_string(), vec![COp::ReadIn(1), COp::Sleep(d), COp::Close(0), COp::Write { to: 1, n }, COp::Sleep(d), COp::Exit], true)
    });
    let random_ops = prop::collection::vec(
        prop_oneof![
            chunk_strategy().prop_map(COp::ReadIn),
            (chunk_strategy(), out_stream()).prop_map(|(n, to)| COp::Copy { n, to }),
            (out_stream(), prop_oneof![1u32..100, 1u32..20000]).prop_map(|(to, n)| COp::Write { to, n }),
            (0u8..3).prop_map(COp::Close),
            sleep_ns().prop_map(COp::Sleep),
            chunk_strategy().prop_map(COp::ReadAll),
            (out_stream(), chunk_strategy()).prop_map(|(to, chunk)| COp::Cat { to, chunk }),
        ],
        0..14,
    )
    .prop_map(|s| ("random-ops".to_string(), s, true));
    let close_outputs_first = (chunk_strategy(), prop_oneof![Just(0u64), sleep_ns()], any::<bool>()).prop_map(|(c, d, partial)| {
        // done with its output before it has looked at its input (think `head -1` in reverse)
        let mut s = vec![];
        if partial {
            s.push(COp::Write { to: 1, n: 10 });
        }
        s.push(COp::Close(1));
        s.push(COp::Close(2));
        if d > 0 {
            s.push(COp::Sleep(d));
        }
        s.push(COp::ReadAll(c));
        ("close-outputs-then-read".to_string(), s, true)
    });
    let select_loop = (out_stream(), chunk_strategy(), any::<bool>()).prop_map(|(to, chunk, tail)| {
        // a child that keeps producing output while it waits for its input
        let mut s = vec![COp::FloodUntilInput { to, chunk, need: 0 }];
        if tail {
            s.push(COp::Write { to: 3 - to, n: 100 });
        }
        ("select-loop".to_string(), s, true)
    });
    if allow_flood {
        let flood = (out_stream(), chunk_strategy(), any::<bool>()).prop_map(|(to, chunk, rd)| {
            let mut s = vec![];
            if rd {
                s.push(COp::ReadIn(4096));
            }
            s.push(COp::Flood { to, chunk });
            ("flood".to_string(), s, false)
        });
        let silent_forever = Just(("silent-forever".to_string(), vec![COp::Sleep(400 * 86400 * 1_000_000_000), COp::Sleep(400 * 86400 * 1_000_000_000), COp::Sleep(400 * 86400 * 1_000_000_000)], true));
        let late = (prop_oneof![Just(26u64 * 86400 * 1_000_000_000), Just(1_000_000_000u64), Just(3600u64 * 1_000_000_000)], 1u32..5000).prop_map(|(d, n)| ("late-output".to_string(), vec![COp::Sleep(d), COp::Write { to: 1, n }, COp::Sleep(d / 2), COp::Write { to: 2, n: 3 }], true));
        prop_oneof![
            2 => silent, 2 => cat, 2 => consume_then_answer, 2 => answer_first, 2 => pingpong, 1 => interleaved,
            2 => early_close, 1 => early_exit, 4 => trickle, 4 => close_in_full, 2 => random_ops,
            4 => flood, 2 => silent_forever, 3 => late, 1 => close_outputs_first
        ]
        .boxed()
    } else {
        prop_oneof![
            2 => silent, 4 => cat, 4 => consume_then_answer, 5 => answer_first, 4 => pingpong, 3 => interleaved,
            3 => early_close, 2 => early_exit, 2 => trickle, 2 => close_in_full, 4 => random_ops, 3 => select_loop, 2 => close_outputs_first
        ]
        .boxed()
    }
}

fn flavour_strategy() -> impl Strategy<Value = Flavour> {
    prop_oneof![5 => Just(Flavour::LinuxSlots), 2 => Just(Flavour::PosixBytes), 2 => Just(Flavour::Stream)]
}

fn content_strategy() -> impl Strategy<Value = Content> {
    prop_oneof![3 => Just(Content::Hash), 2 => Just(Content::Utf8Multi), 1 => Just(Content::AsciiInvalidMix)]
}

fn sched_strategy() -> impl Strategy<Value = (Vec<u8>, u8)> {
    (
        prop::collection::vec(prop_oneof![4 => Just(0u8), 3 => Just(1u8), 2 => 2u8..6, 1 => Just(40u8)], 0..200),
        prop_oneof![3 => Just(0u8), 3 => Just(1u8), 2 => Just(2u8), 1 => Just(4u8)],
    )
}

fn short_plan() -> impl Strategy<Value = Vec<u16>> {
    prop_oneof![
        3 => Just(vec![]),
        2 => prop::collection::vec(prop_oneof![3 => Just(0u16), 2 => Just(1u16), 2 => 1u16..100, 1 => 100u16..4096], 0..60),
        1 => prop::collection::vec(Just(1u16), 30..60),
    ]
}

#[derive(Clone, Copy, PartialEq)]
pub enum Focus {
    C01,
    C02,
    C03,
    C04,
}

fn reads_strategy(focus: Focus) -> BoxedStrategy<Vec<ReadSpec>> {
    match focus {
        Focus::C01 | Focus::C02 => prop_oneof![
            8 => Just(vec![ReadSpec { size: None, time_ns: None }]),
            1 => Just(vec![ReadSpec { size: Some(1 << 30), time_ns: None }]),
            // the exchange carried out in several size-limited reads is still one exchange:
            // it must terminate (C01) and the pieces together are what the child wrote (C02)
            2 => prop::collection::vec(prop_oneof![Just(1u32), Just(4096u32), Just(8192u32), Just(12288u32), 1u32..70000], 1..6)
                .prop_map(|v| v.into_iter().map(|s| ReadSpec { size: Some(s), time_ns: None }).collect()),
        ]
        .boxed(),
        Focus::C03 => {
            let lim = prop_oneof![Just(1u32), Just(2u32), Just(4095u32), Just(4096u32), Just(4097u32), Just(10_000u32), 1u32..70000, Just(1u32 << 30)];
            let steady = (prop_oneof![Just(1u32), Just(7u32), Just(1000u32), Just(4095u32), Just(4096u32), 1u32..4097, 4097u32..20000], 24usize..70)
                .prop_map(|(n, k)| vec![ReadSpec { size: Some(n), time_ns: None }; k]);
            let mixed = prop::collection::vec(prop_oneof![3 => lim.prop_map(Some), 2 => Just(None)], 1..40)
                .prop_map(|v| {
                    let mut first = true;
                    v.into_iter()
                        .map(|s| {
                            let s = if first && s.is_none() { Some(4096) } else { s };
                            first = false;
                            ReadSpec { size: s, time_ns: None }
                        })
                        .collect::<Vec<ReadSpec>>()
                });
            prop_oneof![3 => mixed, 1 => steady].boxed()
        }
        Focus::C04 => {
            let t = prop_oneof![
                2 => Just(0u64),
                2 => 1u64..999_000,
                3 => 1_000_000u64..10_000_000_000,
                1 => Just(100_000_000u64),
                2 => (0u64..2_000_000_000).prop_map(|d| (1u64 << 31) * 1_000_000 - 1_000_000_000 + d),
                1 => Just(30u64 * 86400 * 1_000_000_000),
                1 => Just(TEN_YEARS_NS),
                // the largest duration there is: a limit that cannot even be added to the clock
                1 => Just(u64::MAX),
            ];
            let size = prop_oneof![4 => Just(None), 1 => prop_oneof![Just(1u32), Just(4096u32), 1u32..20000].prop_map(Some)];
            prop::collection::vec((size, prop_oneof![4 => t.prop_map(Some), 1 => Just(None)]), 1..8)
                .prop_map(|v| {
                    let mut first = true;
                    v.into_iter()
                        .map(|(s, t)| {
                            // a history without any time limit checks "never TimedOut without a limit"
                            let t = if first && t.is_none() && s.is_some() { Some(5_000_000) } else { t };
                            first = false;
                            ReadSpec { size: s, time_ns: t }
                        })
                        .collect()
                })
                .boxed()
        }
    }
}

pub fn case_strategy(focus: Focus) -> impl Strategy<Value = SimkCase> {
    let streams = prop_oneof![1 => Just(1u8), 2 => Just(2u8), 1 => Just(4u8), 3 => Just(3u8), 1 => Just(5u8), 3 => Just(6u8), 6 => Just(7u8)];
    (streams, cap_strategy(), cap_strategy(), cap_strategy(), flavour_strategy(), content_strategy())
        .prop_flat_map(move |(streams, c0, c1, c2, flavour, content)| {
            let allow_flood = focus == Focus::C04;
            let short_on = focus != Focus::C01;
            (
                Just((streams, [c0, c1, c2], flavour, content)),
                script_strategy(c0.max(c1).min(65536), allow_flood),
                size_near(c0),
                any::<u32>(),
                sched_strategy(),
                if short_on { short_plan().boxed() } else { Just(vec![]).boxed() },
                if short_on { short_plan().boxed() } else { Just(vec![]).boxed() },
                reads_strategy(focus),
                prop_oneof![4 => Just(false), 1 => Just(true)],
                prop_oneof![3 => Just(1_000u32), 2 => Just(50_000u32), 1 => Just(1_000_000u32)],
                if focus == Focus::C04 {
                    prop_oneof![3 => Just(vec![]), 2 => prop::collection::vec(prop_oneof![2 => Just(0u8), 1 => 1u8..250], 1..24)].boxed()
                } else if focus == Focus::C02 || focus == Focus::C03 {
                    // a signal handler interrupting a blocking poll now and then
                    prop_oneof![5 => Just(vec![]), 1 => prop::collection::vec(prop_oneof![3 => Just(0u8), 1 => 1u8..250], 1..24)].boxed()
                } else {
                    Just(vec![]).boxed()
                },
            )
        })
        .prop_map(move |((streams, caps, flavour, content), (template, script, finite), ilen, iseed, (sched, tail), sr, sw, reads, sv, cost, eintr)| {
            // text front end: C02 compares it with the lossy decoding of the bytes (one unlimited read);
            // under C03 it is read piecewise with limits (empty-only-at-EOF and delivery of the input still apply)
            let string_variant = sv && ((focus == Focus::C02 && reads.len() == 1) || focus == Focus::C03);
            let mut reads = reads;
            if !finite {
                // a never-ending child: every read needs a time limit
                if reads[0].time_ns.is_none() {
                    reads[0].time_ns = Some(5_000_000);
                }
                // a flooding child moves 4 KiB per parent call: keep the number of
                // calls until the deadline small by bounding limit / call cost
                for r in reads.iter_mut() {
                    if let Some(t) = r.time_ns.as_mut() {
                        *t = (*t).min(2000 * cost as u64);
                    }
                }
            }
            SimkCase {
                template,
                sim: SimCfg { streams, caps, flavour, script, content, sched, sched_tail: tail, short_read: sr, short_write: sw, cost_ns: cost, eintr },
                input: InputSpec { len: if streams & 1 != 0 { ilen } else { 0 }, seed: iseed % 1000, kind: content },
                reads,
                string_variant,
                finite,
                wait_before_drop: focus == Focus::C01 && iseed % 2 == 0,
            }
        })
}

// ---------------------------------------------------------------------------
// Classification (non-trivial rule) and the worker
// ---------------------------------------------------------------------------

fn size_class(n: usize, cap: usize) -> &'static str {
    if n == 0 {
        "0"
    } else if n <= 4096 {
        "<=page"
    } else if n <= cap {
        "<=cap"
    } else {
        ">cap"
    }
}

fn classify(focus: Focus, case: &SimkCase, o: &Outcome, rep: &mut CaseReport) {
    let caps = case.sim.caps;
    let in_c = size_class(o.input.len(), caps[0] as usize);
    let out_c = size_class(o.wrote[1].len(), caps[1] as usize);
    let err_c = size_class(o.wrote[2].len(), caps[2] as usize);
    let both = !o.wrote[1].is_empty() && !o.wrote[2].is_empty();
    rep.count("short_reads_hit", o.short_reads_hit as u64);
    rep.count("short_writes_hit", o.short_writes_hit as u64);
    rep.count("parent_calls", o.ncalls);
    rep.count("polls_interrupted_by_signal", o.eintr_hit as u64);
    match focus {
        Focus::C01 => {
            let big = in_c == ">cap" || out_c == ">cap" || err_c == ">cap";
            let early_out = !o.wrote[1].is_empty() && o.child_read.len() < o.input.len();
            if big || early_out || both {
                rep.nontrivial(format!("s{:03b}|{}|in{}|out{}|err{}|blk:{}", case.sim.streams, case.template, in_c, out_c, err_c, o.blocked_first.unwrap_or("never")));
            }
        }
        Focus::C02 => {
            let crossed = o.input.len() > 4096 || o.wrote[1].len() > 4096 || o.wrote[2].len() > 4096;
            if o.short_reads_hit > 0 || o.short_writes_hit > 0 || crossed || both {
                rep.nontrivial(format!(
                    "s{:03b}|{}|sr{}|sw{}|x{}|both{}|str{}",
                    case.sim.streams,
                    case.template,
                    (o.short_reads_hit > 0) as u8,
                    (o.short_writes_hit > 0) as u8,
                    crossed as u8,
                    both as u8,
                    case.string_variant as u8
                ));
            }
        }
        Focus::C03 => {
            let clipped = o.reads.iter().filter(|r| r.ok && r.size_limit.map(|n| r.out.as_ref().map(|v| v.len()).unwrap_or(0) + r.err.as_ref().map(|v| v.len()).unwrap_or(0) == n).unwrap_or(false)).count();
            let changed = o.reads.windows(2).any(|w| w[0].size_limit != w[1].size_limit);
            if clipped > 0 && (both || changed) {
                let lc = |n: usize| if n == 1 { "1" } else if n < 4096 { "<pg" } else if n == 4096 { "pg" } else { ">pg" };
                let first = o.reads[0].size_limit.unwrap_or(0);
                rep.nontrivial(format!("s{:03b}|{}|lim{}|clip{}|chg{}|both{}", case.sim.streams, case.template, lc(first), clipped.min(3), changed as u8, both as u8));
            }
        }
        Focus::C04 => {
            let touts = o.reads.iter().filter(|r| r.err_kind == Some(std::io::ErrorKind::TimedOut)).count();
            let resumed = o.reads.iter().enumerate().any(|(i, r)| {
                r.err_kind == Some(std::io::ErrorKind::TimedOut) && o.reads[i + 1..].iter().any(|q| q.out.as_ref().map(|v| !v.is_empty()).unwrap_or(false) || q.err.as_ref().map(|v| !v.is_empty()).unwrap_or(false))
            });
            let huge = o.reads.iter().any(|r| r.time_limit.map(|t| t > (i32::MAX as u64) * 1_000_000).unwrap_or(false) && !r.drain);
            let flood = case.template == "flood";
            let early_close = case.template == "close-stdin-early" || case.template == "early-close";
            if (touts > 0 && resumed) || huge || flood || early_close {
                let tc = |t: u64| if t == 0 { "0" } else if t < 1_000_000 { "sub-ms" } else if t <= 10_000_000_000 { "ms-s" } else if t <= (i32::MAX as u64) * 1_000_000 { "long" } else { ">2^31ms" };
                let t0 = o.reads[0].time_limit.unwrap_or(0);
                rep.nontrivial(format!("s{:03b}|{}|t{}|touts{}|resumed{}|huge{}", case.sim.streams, case.template, tc(t0), touts.min(3), resumed as u8, huge as u8));
            }
        }
    }
}

pub fn run_and_judge(focus: Focus, case: &SimkCase, rep: &mut CaseReport) -> CaseResult {
    let o = run_simk(case);
    classify(focus, case, &o, rep);
    match focus {
        Focus::C01 => judge_c01(case, &o),
        Focus::C02 => judge_c02(case, &o),
        Focus::C03 => judge_c03(case, &o),
        Focus::C04 => judge_c04(case, &o),
    }
}

fn worker_for(focus: Focus, ctx: &Ctx) {
    quiet_panics();
    // self-test of the pipe model against the kernel (evidence that the model
    // does not invent behaviour); disagreement = inconclusive
    match selftest_pipe_model(ctx.sub_seed("selftest"), ctx.tier.pick(20, 200)) {
        Ok(n) => ctx.stats.borrow_mut().counters.insert("pipe_model_selftest_steps".into(), n as u64).map(|_| ()).unwrap_or(()),
        Err(e) => {
            ctx.inconclusive(format!("pipe model self-test: {}", e));
            return;
        }
    }
    let n = match focus {
        Focus::C01 | Focus::C02 => ctx.tier.pick(12_000, 150_000),
        _ => ctx.tier.pick(8000, 100_000),
    };
    let name = match focus {
        Focus::C01 => "c01-simk",
        Focus::C02 => "c02-simk",
        Focus::C03 => "c03-simk",
        Focus::C04 => "c04-simk",
    };
    ctx.explore("simk", name, case_strategy(focus), n, 2000, |c, rep| run_and_judge(focus, c, rep));
    // real-process tier: same kind of scripted child over real kernel pipes,
    // through the public entry points, timing-insensitive oracles only
    let prop: &'static str = match focus {
        Focus::C01 => "C01",
        Focus::C02 => "C02",
        Focus::C03 => "C03",
        Focus::C04 => "C04",
    };
    crate::props::realcomm::run_real_tier(ctx, prop, ctx.tier.pick(120, 1500));
    if focus == Focus::C01 {
        // termination only, through every front end (capture() included: what it does
        // around the exchange - waiting, dropping - is part of "always finishes"), with
        // children that close any of their streams at any point
        crate::props::realcomm::run_term_tier(ctx, ctx.tier.pick(150, 2500));
    }
}

fn replay_for(focus: Focus, ctx: &Ctx, engine: &str, case: &Value) -> CaseResult {
    quiet_panics();
    if engine == "real" {
        let prop: &'static str = match focus {
            Focus::C01 => "C01",
            Focus::C02 => "C02",
            Focus::C03 => "C03",
            Focus::C04 => "C04",
        };
        if case.get("ops").and_then(|o| o.as_array()).map(|a| a.iter().any(|x| x.get("Close").is_some() || x.get("ReadSome").is_some())).unwrap_or(false) || case.get("limits").is_none() {
            return crate::props::realcomm::replay_term(ctx, case);
        }
        return crate::props::realcomm::replay(ctx, prop, case);
    }
    let c: SimkCase = serde_json::from_value(case.clone()).map_err(|e| Fail::new("bad-replay-file", e.to_string()))?;
    let mut rep = CaseReport::default();
    let r = run_and_judge(focus, &c, &mut rep);
    println!("class: {:?}", rep.class);
    r
}

const SIMK_ASSUMPTIONS: &[&str] = &[
    "the simulated kernel (pipes: Linux page-slot model and POSIX byte model, poll, blocking read/write, virtual CLOCK_MONOTONIC) stands in for the OS; the Linux pipe model is differential-tested against real kernel pipes at the start of every run",
    "interleavings are explored at system-call granularity (that is where parent and child interact)",
    "termination is judged as: no wait-for cycle (parent blocked without timeout while the scripted child cannot move) and a parent call budget of 8 calls per byte moved + 512 + 256 per read()",
    "sizes are bounded (streams up to ~2 MiB, scripts up to 25 ops, schedules up to 200 explicit entries)",
];

pub static C01: PropDef = PropDef {
    id: "C01",
    level: "exploration",
    rule: "proptest generates (piped-stream subset, three pipe capacities from {4K,8K,16K,64K,1M}, pipe flavour, child script from 11 templates or a random op vector, input length around/far above the capacity, per-call schedule of child steps, read limits); the real Communicator code runs on the simulated kernel. Oracle: never a wait-for cycle (parent blocked with no timeout while the child is blocked or finished), never a call budget overrun (spinning), bounded number of calls after the child closed everything. Non-trivial = more than one pipe capacity moved in some direction, or the child produced output before consuming all input, or both output streams carried data; distinct = distinct generated cases among those. Further templates: a child that closes its outputs before it reads its input, a multiplexing child that keeps producing output until its input has arrived. An unlimited read() that returned Ok must have completed the exchange: the scripted child can then reach its end with the parent's pipe ends as they are (a wait before the Communicator is dropped must work). A separate termination-only real-process stage runs Popen::communicate/communicate_bytes, Communicator::read, Exec::capture and Pipeline::capture against real children whose scripts close any of their three streams at any point, under the wait-for-graph oracle.",
    assumptions: SIMK_ASSUMPTIONS,
    engines: "simk",
    workers: |_| 16,
    worker: |ctx| worker_for(Focus::C01, ctx),
    replay: |c, e, v| replay_for(Focus::C01, c, e, v),
    exhaustive: false,
};
pub static C02: PropDef = PropDef {
    id: "C02",
    level: "exploration",
    rule: "as C01 plus short-read and short-write plans (each parent read() may be cut to k>=1 bytes; a write may return short where POSIX allows it: above PIPE_BUF on pipes, at any size on a byte stream) and the read_string variant. Oracle: ground-truth record of the simulated child: returned bytes per stream equal what the child wrote (prefix on error), absent iff not piped, bytes written to stdin are exactly the input in order, child sees EOF only after the whole input, close(stdin) follows the last accepted byte before the next poll, text variant equals lossy decoding. Non-trivial = a short read/write actually happened, or a stream crossed the 4096-byte chunk, or both streams carried data. Blocking polls are interrupted by a signal handler (EINTR) in a sixth of the cases; the data returned with the error and by the resumed reads must still add up exactly. A child that keeps producing output until its input has arrived must get its input and its end-of-file while it does so: an exchange in which such a child has produced more than 16 MiB + 16 x the input is reported as input withheld.",
    assumptions: SIMK_ASSUMPTIONS,
    engines: "simk",
    workers: |_| 16,
    worker: |ctx| worker_for(Focus::C02, ctx),
    replay: |c, e, v| replay_for(Focus::C02, c, e, v),
    exhaustive: false,
};
pub static C03: PropDef = PropDef {
    id: "C03",
    level: "exploration",
    rule: "histories of up to 40 reads whose size limit changes between reads (1, 2, 4095, 4096, 4097, 10000, random, larger than the output), children writing to both streams while reads are clipped, short reads on; reading continues until an all-empty Ok. Oracle: every read returns at most n bytes in total; concatenation of the pieces per stream equals the child's record; an all-empty Ok only when the simulator says every captured stream is at EOF; the whole input is delivered. Non-trivial = at least one read was clipped exactly at its limit and (both streams carried data or the limit changed). A quarter of the histories are steady runs of 24-70 equally limited reads against children that keep producing output until their input has arrived: 24 consecutive reads that are each cut short by the limit, start and end with input pending and the stdin pipe writable, and deliver no input byte count as 'the input is no longer being delivered'. A fifth of the histories use the text front end (read_string), for which empty-only-at-EOF and input delivery are judged; polls are interrupted by EINTR in a sixth of the cases.",
    assumptions: SIMK_ASSUMPTIONS,
    engines: "simk",
    workers: |_| 16,
    worker: |ctx| worker_for(Focus::C03, ctx),
    replay: |c, e, v| replay_for(Focus::C03, c, e, v),
    exhaustive: false,
};
pub static C04: PropDef = PropDef {
    id: "C04",
    level: "exploration",
    rule: "histories of up to 8 reads with time limits from {0, sub-ms, ms..10 s, 2^31 ms +- 1 s, 30 days, 10 years} (optionally size limits), children that are silent, silent forever, trickling, flooding, closing stdin early with the pipe full, or producing output after 26 days; virtual clock. Oracle: at most 2 polls and 6 reads/writes are entered after the deadline; TimedOut only if the virtual instant of return is >= deadline - 1 ms and never without a limit; pieces across timed-out and successful reads concatenate to the child's record; input delivered exactly once. Non-trivial = a timeout followed by a later read returning data, or a limit beyond i32::MAX ms, or a flooding child, or stdin closed early. The limit may also be Duration::MAX (a limit that cannot be added to the clock).",
    assumptions: SIMK_ASSUMPTIONS,
    engines: "simk",
    workers: |_| 16,
    worker: |ctx| worker_for(Focus::C04, ctx),
    replay: |c, e, v| replay_for(Focus::C04, c, e, v),
    exhaustive: false,
};
