fn main(){}
