#!/usr/bin/env python3
"""Print the catch matrix (markdown) from tools/mutants_results.jsonl and seeded/*/meta.json."""
import json, glob, os
ROOT = os.path.dirname(os.path.dirname(os.path.abspath(__file__)))
print("### Seeded changes (independent sub-agents; confirmed in a scratch worktree)\n")
print("| Seeded change | Property | Check result (quick tier) | Signature |")
print("|---|---|---|---|")
for d in sorted(glob.glob(os.path.join(ROOT, "seeded", "*"))):
    m = json.load(open(os.path.join(d, "meta.json")))
    for p, c in sorted(m.get("checks", {}).items()):
        print(f"| {m['name']} | {p} | {c['status']} ({c['wall_s']} s incl. rebuild) | {'; '.join(s.replace('signature: ', '') for s in c['signatures'][:2])} |")
    if not m.get("checks"):
        print(f"| {m['name']} | {m['property']} | not run yet | |")
print("\n### Hand-written mutants (tools/mutants.json)\n")
print("| Mutant | Property | Result | Existing tests pass with it | Signature |")
print("|---|---|---|---|---|")
last = {}
p = os.path.join(ROOT, "tools", "mutants_results.jsonl")
if os.path.exists(p):
    for l in open(p):
        r = json.loads(l)
        last[(r["mutant"], r["property"])] = r
for (m, pr), r in sorted(last.items()):
    print(f"| {m} | {pr} | {r['status']} | {r['repo_tests_pass']} | {'; '.join(s.replace('signature: ', '') for s in r['signatures'][:2])} |")
