#!/usr/bin/env python3
"""Generates /verif/MANIFEST.json from the table below and validates it."""
import json, os, sys
HERE = os.path.dirname(os.path.dirname(os.path.abspath(__file__)))

# id -> (level, technique, text, note, design_ref, engine)
CHECKS = {
 "C05": ("exploration", "exhaustive enumeration of the 125 redirection configurations x generated variants; child self-report of fd identity, same-description probes, offset/tag effects",
         "All 125 assignments are run with real children and generated variations (file kinds, shared Rc / dup'ed files, repeated spawns, short-lived spawning thread) while the harness's own fds 0-2 are replaced by distinct files; identity of each child stream is established by dev/ino, pairwise same-open-file-description probes and by observing, through handles the harness kept, the offsets and tags the child leaves behind.",
         "Exhaustive over configurations, sampled over variants; trusts fstat and the shared-flag/offset probes as identity of an open file description.", "DESIGN.md 4 (C05)", "real"),
 "C08": ("exploration", "proptest spawn histories + controlled thread schedules at syscall granularity; pipe registry vs. children's /proc fd tables",
         "Every pipe the library creates is registered by the interposed pipe()/pipe2(); after every step of a generated history (single spawns, pipelines, communicate, stream adapters, all handles staying open) and during generated interleavings of 2-3 spawning threads (cooperative scheduler hooked into every interposed call) each child's descriptor table is read and any registered pipe end that is not that child's own standard stream is a violation; EOF propagation is then checked behaviourally.",
         "Yield points sit at libc call boundaries; only pipes the library itself created are judged.", "DESIGN.md 4 (C08), 2.3.3, 2.3.7", "real"),

 "C07": ("fault_enumeration", "dry-run call counting + injection of an errno at every (call kind, ordinal) in parent and forked child, plus real failure causes; audits",
         "For each configuration every pipe/fcntl/fork call of the parent and every chdir/dup2/setuid/setgid/setpgid/exec call of the forked child is failed once (link-time interposition, fault plan inherited across fork); eight real causes are applied too. Err must carry the step's errno, nothing may have started, no child and no descriptor may remain; without a fault the program must really have started.",
         "Quick samples 48 configurations, thorough enumerates all 1056; the errno per point is drawn from a list of 17 (up to 4095).", "DESIGN.md 4 (C07), 2.3.5", "real"),
 "C15": ("exploration", "proptest-generated PATH shapes over a scratch tree; independent lookup model; self-reported /proc/self/exe",
         "PATH values with missing / empty / non-executable / directory / non-binary / runnable / empty-string / duplicate / over-long entries and names with slashes are resolved by an independent model; the helper that actually ran reports its own executable path.",
         "Harness sets its own PATH/cwd per case; runs as root.", "DESIGN.md 4 (C15)", "real"),
 "C17": ("exploration", "proptest-generated sizes of name/PATH/argv/env/cwd x outcome; counting global allocator armed in the forked child",
         "The harness's global allocator counts alloc/realloc calls into a shared page while armed; the interposed fork() arms it in the child only. Any allocation between fork and exec/_exit is a violation, on success and on every failure path (including injected child-side errors).",
         "Sees allocations through Rust's global allocator only.", "DESIGN.md 4 (C17), 2.3.6", "real"),
 "C18": ("exploration", "proptest-generated signal masks x SIGPIPE dispositions x spawn forms; child self-report of SigBlk/SigIgn + behavioural SIGPIPE check",
         "The spawning thread blocks a generated set of signals and the harness sets SIGPIPE to ignored/default/handler; each child (helper built with #![no_main] so that no runtime touches the signal state) reports its mask and dispositions; a flooding child must die of SIGPIPE.",
         "Trusts /proc/self/status of the child.", "DESIGN.md 4 (C18)", "real"),

 "C01": ("exploration", "proptest-generated child scripts x schedules x pipe capacities on a simulated kernel (link-time interposed libc); wait-for-cycle, call-budget and CPU-spin oracles; real-process tier; libFuzzer stage in thorough",
         "The real Communicator code runs against a deterministic simulated kernel in which the generated case contains the child's I/O script, the interleaving at system-call granularity, pipe capacities/flavours and sizes; a hang becomes an assertion failure (wait-for cycle or call budget) that shrinks and replays.",
         "Trusts the simulated pipe/poll model (differential-tested against real kernel pipes at every run) and the call budget as the definition of 'finishes'.", "DESIGN.md 2.1, 3 (C01)", "simk"),
 "C02": ("exploration", "as C01 plus short-read/short-write plans; ground-truth byte record of the simulated child as oracle; real-process tier (helper reports hash of what it received); same oracle on the extracted cfg(windows) threaded communicator over real pipes; libFuzzer stage in thorough",
         "Byte exactness in both directions, absence of unpiped streams, EOF placement and the text variant are compared with the simulator's record of what the scripted child really wrote and read, under generated short reads/writes.",
         "Same trusted base as C01.", "DESIGN.md 3 (C02)", "simk"),
 "C03": ("exploration", "proptest histories of size limits on the simulated kernel; per-read bound + concatenation = record + bounded-liveness of input delivery; real-process tier; same oracle on the extracted cfg(windows) threaded communicator; libFuzzer stage in thorough",
         "Histories of reads with changing size limits while the scripted child writes to both streams; every piece is bounded, pieces concatenate to the record, empty only at EOF (checked against simulator state at the instant of return).",
         "Same trusted base as C01.", "DESIGN.md 3 (C03)", "simk"),
 "C04": ("exploration", "proptest histories of time limits on a virtual clock (incl. EINTR injection); exact virtual-time bounds; real-process tier; extracted cfg(windows) threaded communicator against never-ending writers; libFuzzer stage in thorough",
         "Time limits from 0 to 10 years against silent / trickling / flooding / stdin-closing children on a virtual clock: lateness is bounded in calls entered after the deadline, TimedOut only within 1 ms of the deadline, never without a limit, continuity across resumed reads.",
         "Same trusted base as C01; virtual clock advances by a per-call cost and by blocking polls.", "DESIGN.md 3 (C04)", "simk"),
 "C06": ("exploration", "proptest-generated argv/env/cwd/identity; byte-for-byte self-report of a real helper child; extracted cfg(windows) environment-block builder against a reference model",
         "Real children (helper hard-linked into a scratch directory, mode chosen by a sidecar file so that argv and environment stay under test) report argv, environ, cwd, uids/gids, pgid and /proc/self/exe; compared with the request and a last-wins model; NUL injection must be refused before fork.",
         "Trusts the helper's self-report and /proc; runs as root so identity changes really happen.", "DESIGN.md 4 (C06)", "real"),
 "C09": ("exploration", "proptest call histories against a reference model on a simulated process table; real children for all exit codes / fatal signals; libFuzzer stage in thorough",
         "Histories of poll/wait/wait_timeout/pid/exit_status/signals/detach/external reaping over a fake-fork Popen whose waitpid/kill/clock are served by a simulator; results are compared with the decoded ground truth and the syscall log is audited for calls after the status is final.",
         "Trusts the simulated waitpid/kill semantics (Linux status words, ECHILD after reaping).", "DESIGN.md 5 (C09)", "simproc"),
 "C10": ("exploration", "same histories (incl. process-group leaders); audit of the simulated kill/killpg log; libFuzzer stage in thorough",
         "Every kill the crate issues is logged with the target's state; exactly one correct signal to the child's pid while the status is unknown, none afterwards, never another pid.",
         "Same as C09.", "DESIGN.md 5 (C10)", "simproc"),
 "C11": ("exploration", "durations x exit placements on a virtual clock; exact timing and call-count bounds; libFuzzer stage in thorough",
         "wait_timeout(d) and poll() run on a virtual clock: return instants, number of status checks, sleeps between checks and sleeps beyond the deadline are bounded exactly.",
         "Same as C09; sleeping = interposed nanosleep/clock_nanosleep.", "DESIGN.md 5 (C11)", "simproc"),
 "C12": ("exploration", "proptest (handle kind x child behaviour x drop point) with real children; wait-for-graph deadlock oracle + zombie audit",
         "Each handle kind is dropped/completed at a generated point with a child that has pending output/input; a non-returning drop is judged structurally (thread in wait4(P), P blocked on a pipe only the harness holds), then waitpid(-1) must say ECHILD; detached drops must not wait or reap.",
         "Trusts /proc/<pid>/syscall and fd tables (root).", "DESIGN.md 4 (C12), 2.3.4", "real"),
 "C13": ("exploration", "proptest composition trees / stream kinds / sizes with real filter stages; non-commutative tagged transform as oracle",
         "Stages wrap their input in distinct tags so the output identifies exactly which stages ran in which order between which end points; stderr multiset, exit status and zombie audit complete the oracle.",
         "Trusts the helper stages.", "DESIGN.md 4 (C13)", "real"),
 "C14": ("fault_enumeration", "full enumeration (n, k, cause, stdin kind, terminator, detached) with injected fork/pipe faults; wait-for-graph oracle + audits",
         "Every failing position of every pipeline length with every stdin kind and terminator is run once per cause (missing program, injected fork failure; thorough: every pipe() ordinal); error value, nothing started afterwards, prompt return (structural deadlock oracle), zombie and descriptor audits.",
         "Fault injection through link-time interposed fork/pipe; /proc readable.", "DESIGN.md 4 (C14)", "real"),
 "C16": ("exploration", "proptest builder-call histories against a plain-data model; real helper child reports what it was given",
         "A small model of the builder predicts either a refusal (panic) at a specific call/terminator or the child's self-report; catch_unwind observes refusals.",
         "Trusts the helper's self-report.", "DESIGN.md 4 (C16)", "real"),
 "C19": ("exploration", "proptest Unicode argument vectors; differential against real sh (dash, bash --posix)",
         "The rendered command line is evaluated by a real shell with the program names bound to recording helpers; the recorded vectors must equal the originals (pipelines: in stage order).",
         "dash and bash --posix stand for a POSIX shell.", "DESIGN.md 4 (C19)", "real"),

 "C20": ("exploration",
         "exhaustive + random generated argv vectors; round-trip through two reference Microsoft parsers (proptest, shrinking)",
         "Every argument string up to a length bound over the stated alphabet (and all pairs to a smaller bound) plus random longer vectors is assembled by the crate's own assemble_cmdline (extracted textually from /repo at build time, compiled on Linux against a UTF-16 shim) and parsed back by two independent implementations of Microsoft's rules; NUL anywhere must be rejected. Exhaustive to the bound, sampled beyond.",
         "Trusts the two reference parsers (pinned to Microsoft's documented examples at every run) and the textual extraction; CreateProcessW / the real CRT are not run.",
         "DESIGN.md section 5 (C20), 2.4", "win"),
}
NOT_YET = {}

def main():
    props = [json.loads(l) for l in open(os.path.join(HERE, "properties.jsonl"))]
    checks = []
    na = []
    for p in props:
        pid = p["id"]
        if pid in CHECKS:
            level, tech, text, note, ref, engine = CHECKS[pid]
            checks.append({
                "property_id": pid,
                "quick_cmd": f"./run.sh quick {pid}",
                "thorough_cmd": f"./run.sh thorough {pid}",
                "evidence_file": f"/verif/evidence/{pid}.json",
                "replay_cmd_template": f"./run.sh replay {pid} {{path}}",
                "engine": engine,
                "level_claimed": {"category": level, "text": text, "design_ref": ref},
                "level_note": note,
                "technique": tech,
            })
        else:
            na.append({"property_id": pid, "reason": NOT_YET.get(pid, "check not built yet in this round (construction order in DESIGN.md section 9); no claim is made until it exists")})
    engines = [
        {"name": "win", "path": "harness/wincheck", "serves_properties": ["C20"], "kind_free_text": "cfg(windows) code extracted from /repo at build time, compiled on Linux against a UTF-16 shim; proptest + exhaustive enumeration"},
        {"name": "simk", "path": "harness/src/simk.rs (+ harness/fuzz/fuzz_targets/simk.rs)", "serves_properties": ["C01", "C02", "C03", "C04"], "kind_free_text": "deterministic simulated kernel (pipes, poll, virtual clock, scripted child) behind link-time interposed libc symbols; proptest-generated scripts, schedules, short-I/O plans"},
        {"name": "simproc", "path": "harness/src/simproc.rs (+ harness/fuzz/fuzz_targets/simproc.rs)", "serves_properties": ["C09", "C10", "C11"], "kind_free_text": "simulated process table and virtual clock behind interposed fork/waitpid/kill/clock/sleep; proptest-generated call histories against a reference model"},
        {"name": "real", "path": "harness/src/real.rs", "serves_properties": ["C05", "C06", "C07", "C08", "C12", "C13", "C14", "C15", "C16", "C17", "C18", "C19"], "kind_free_text": "real child processes (helper vchild) with fault injection, descriptor/zombie audits, pipe registry, allocation probe"},
    ]
    claimed = {c["property_id"] for c in checks}
    for e in engines:
        e["serves_properties"] = [p for p in e["serves_properties"] if p in claimed]
    engines = [e for e in engines if e["serves_properties"]]
    m = {
        "version": 1,
        "setup_cmd": "cd /verif/harness && CARGO_NET_OFFLINE=true cargo build --release --offline --workspace",
        "hooks": {
            "guard": "--cfg subprocess_verif",
            "enable": "no source hooks are needed: the harness links the crate unchanged and interposes libc symbols at link time; cfg(windows) items are extracted textually by build.rs",
            "baseline_off_cmd": "cd /repo && cargo test --workspace --no-fail-fast --offline",
            "source_commits": [],
            "add_only": True,
        },
        "engines": engines,
        "checks": checks,
        "notes": "All checks: ./run.sh <quick|thorough|replay> <id> [path]; exit 0 held / 1 VIOLATION / 2 inconclusive. VERIF_SEED selects the PRNG stream. known_findings.json lists recorded and fixed defects.",
        "not_applicable": na,
    }
    out = os.path.join(HERE, "MANIFEST.json")
    json.dump(m, open(out, "w"), indent=1)
    try:
        import jsonschema
        jsonschema.validate(m, json.load(open("/root/.vp/MANIFEST.schema.json")))
        print("MANIFEST.json valid;", len(checks), "checks,", len(na), "not_applicable")
    except ImportError:
        print("jsonschema not available; written without validation")

if __name__ == "__main__":
    main()
