#!/usr/bin/env python3
"""Generates /verif/MANIFEST.json from the table below and validates it."""
import json, os, sys
HERE = os.path.dirname(os.path.dirname(os.path.abspath(__file__)))

# id -> (level, technique, text, note, design_ref, engine)
CHECKS = {
 "C20": ("exploration",
         "exhaustive + random generated argv vectors; round-trip through two reference Microsoft parsers (proptest, shrinking)",
         "Every argument string up to a length bound over the stated alphabet (and all pairs to a smaller bound) plus random longer vectors is assembled by the crate's own assemble_cmdline (extracted textually from /repo at build time, compiled on Linux against a UTF-16 shim) and parsed back by two independent implementations of Microsoft's rules; NUL anywhere must be rejected. Exhaustive to the bound, sampled beyond.",
         "Trusts the two reference parsers (pinned to Microsoft's documented examples at every run) and the textual extraction; CreateProcessW / the real CRT are not run.",
         "DESIGN.md section 5 (C20), 2.4", "win"),
}
NOT_YET = {}

def main():
    props = [json.loads(l) for l in open(os.path.join(HERE, "properties.jsonl"))]
    checks = []
    na = []
    for p in props:
        pid = p["id"]
        if pid in CHECKS:
            level, tech, text, note, ref, engine = CHECKS[pid]
            checks.append({
                "property_id": pid,
                "quick_cmd": f"./run.sh quick {pid}",
                "thorough_cmd": f"./run.sh thorough {pid}",
                "evidence_file": f"/verif/evidence/{pid}.json",
                "replay_cmd_template": f"./run.sh replay {pid} {{path}}",
                "engine": engine,
                "level_claimed": {"category": level, "text": text, "design_ref": ref},
                "level_note": note,
                "technique": tech,
            })
        else:
            na.append({"property_id": pid, "reason": NOT_YET.get(pid, "check not built yet in this round (construction order in DESIGN.md section 9); no claim is made until it exists")})
    engines = [
        {"name": "win", "path": "harness/wincheck", "serves_properties": ["C20"], "kind_free_text": "cfg(windows) code extracted from /repo at build time, compiled on Linux against a UTF-16 shim; proptest + exhaustive enumeration"},
        {"name": "simk", "path": "harness/src/simk.rs", "serves_properties": ["C01", "C02", "C03", "C04"], "kind_free_text": "deterministic simulated kernel (pipes, poll, virtual clock, scripted child) behind link-time interposed libc symbols; proptest-generated scripts, schedules, short-I/O plans"},
        {"name": "simproc", "path": "harness/src/simproc.rs", "serves_properties": ["C09", "C10", "C11"], "kind_free_text": "simulated process table and virtual clock behind interposed fork/waitpid/kill/clock/sleep; proptest-generated call histories against a reference model"},
        {"name": "real", "path": "harness/src/real.rs", "serves_properties": ["C05", "C06", "C07", "C08", "C12", "C13", "C14", "C15", "C16", "C17", "C18", "C19"], "kind_free_text": "real child processes (helper vchild) with fault injection, descriptor/zombie audits, pipe registry, allocation probe"},
    ]
    claimed = {c["property_id"] for c in checks}
    for e in engines:
        e["serves_properties"] = [p for p in e["serves_properties"] if p in claimed]
    engines = [e for e in engines if e["serves_properties"]]
    m = {
        "version": 1,
        "setup_cmd": "cd /verif/harness && CARGO_NET_OFFLINE=true cargo build --release --offline --workspace",
        "hooks": {
            "guard": "--cfg subprocess_verif",
            "enable": "no source hooks are needed: the harness links the crate unchanged and interposes libc symbols at link time; cfg(windows) items are extracted textually by build.rs",
            "baseline_off_cmd": "cd /repo && cargo test --workspace --no-fail-fast --offline",
            "source_commits": [],
            "add_only": True,
        },
        "engines": engines,
        "checks": checks,
        "notes": "All checks: ./run.sh <quick|thorough|replay> <id> [path]; exit 0 held / 1 VIOLATION / 2 inconclusive. VERIF_SEED selects the PRNG stream. known_findings.json lists recorded and fixed defects.",
        "not_applicable": na,
    }
    out = os.path.join(HERE, "MANIFEST.json")
    json.dump(m, open(out, "w"), indent=1)
    try:
        import jsonschema
        jsonschema.validate(m, json.load(open("/root/.vp/MANIFEST.schema.json")))
        print("MANIFEST.json valid;", len(checks), "checks,", len(na), "not_applicable")
    except ImportError:
        print("jsonschema not available; written without validation")

if __name__ == "__main__":
    main()
