#!/usr/bin/env python3
"""Seeded breaking changes (written by independent sub-agents that saw only
the property text).

  seeded.py ingest <srcdir> <name> <property> [--demo-kind test|example] [--demo-args "..."]
      Confirm the change in a fresh scratch worktree of /repo (existing tests
      pass with it, the demonstration fails with it and passes without it) and
      store it as /verif/seeded/<name>/ (patch.diff, demonstration, meta.json).
  seeded.py run <name> [<property> ...]
      Apply the patch to /repo, run the registered quick check(s), undo
      (git -C /repo checkout -- .), record the outcome in meta.json.
  seeded.py table
      Print the catch matrix.
"""
import json, os, shutil, subprocess, sys, time, glob, signal

ROOT = os.path.dirname(os.path.dirname(os.path.abspath(__file__)))
SEEDED = os.path.join(ROOT, "seeded")


def sh(cmd, timeout=None, cwd=None):
    p = subprocess.Popen(cmd, shell=True, text=True, stdout=subprocess.PIPE, stderr=subprocess.STDOUT, start_new_session=True, cwd=cwd)
    try:
        out, _ = p.communicate(timeout=timeout)
        return p.returncode, out
    except subprocess.TimeoutExpired:
        os.killpg(p.pid, signal.SIGKILL)
        out, _ = p.communicate()
        return 124, out + "\nTIMEOUT"


def tests_pass(wt):
    rc, out = sh("cargo test --offline 2>&1 | grep -E '^test result'", timeout=300, cwd=wt)
    lines = [l for l in out.splitlines() if l.startswith("test result")]
    ok = rc != 124 and len(lines) >= 3 and all(" 0 failed" in l for l in lines)
    return ok, " | ".join(lines)


def ingest(src, name, prop, demo_kind, demo_args):
    src = os.path.abspath(src)
    patch = os.path.join(src, "patch.diff")
    demos = [f for f in glob.glob(os.path.join(src, "*.rs"))]
    assert os.path.exists(patch), "no patch.diff"
    assert demos, "no demo .rs"
    demo = demos[0]
    wt = f"/tmp/seedv-{name}"
    sh(f"git -C /repo worktree remove --force {wt}")
    rc, out = sh(f"git -C /repo worktree add --detach {wt} HEAD")
    assert rc == 0, out
    meta = {"name": name, "property": prop, "source": "independent sub-agent given only the property text and a scratch worktree", "confirmed_at": time.strftime("%Y-%m-%d %H:%M:%S"), "repo_head": sh("git -C /repo rev-parse --short HEAD")[1].strip()}
    try:
        sub = "tests" if demo_kind == "test" else "examples"
        os.makedirs(os.path.join(wt, sub), exist_ok=True)
        demo_dst = os.path.join(wt, sub, "seed_demo.rs")
        demo_cmd = "cargo test --offline --test seed_demo" if demo_kind == "test" else f"cargo run --offline --example seed_demo {demo_args}".strip()
        # without the change: existing tests + demo pass
        shutil.copy(demo, demo_dst)
        rc0, out0 = sh(demo_cmd, timeout=600, cwd=wt)
        # with the change
        rc, out = sh(f"git apply {patch}", cwd=wt)
        assert rc == 0, "patch does not apply: " + out
        os.remove(demo_dst)
        ok, summary = tests_pass(wt)
        shutil.copy(demo, demo_dst)
        rc1, out1 = sh(demo_cmd, timeout=600, cwd=wt)
        meta.update({
            "existing_tests_pass_with_change": ok,
            "existing_tests_summary": summary,
            "demo_cmd": demo_cmd,
            "demo_without_change_exit": rc0,
            "demo_with_change_exit": rc1,
            "demo_with_change_tail": out1.strip().splitlines()[-8:],
        })
        confirmed = ok and rc0 == 0 and rc1 != 0
        meta["confirmed"] = confirmed
        print(json.dumps(meta, indent=1))
        if confirmed:
            dst = os.path.join(SEEDED, name)
            os.makedirs(dst, exist_ok=True)
            shutil.copy(patch, os.path.join(dst, "patch.diff"))
            shutil.copy(demo, os.path.join(dst, os.path.basename(demo)))
            notes = os.path.join(src, "notes.md")
            if os.path.exists(notes):
                shutil.copy(notes, os.path.join(dst, "notes.md"))
                txt = open(notes).read()
                meta["needs_to_manifest"] = "see notes.md"
            json.dump(meta, open(os.path.join(dst, "meta.json"), "w"), indent=1)
            print("KEPT as", dst)
        else:
            print("NOT CONFIRMED")
    finally:
        sh(f"git -C /repo worktree remove --force {wt}")
        shutil.rmtree(wt, ignore_errors=True)


def run(name, props):
    d = os.path.join(SEEDED, name)
    meta = json.load(open(os.path.join(d, "meta.json")))
    if not props:
        props = [meta["property"]]
    if meta.get("obsolete_after"):
        print(f"[{name}] skipped: obsolete after {meta['obsolete_after'][:60]}...")
        return
    dirty = sh("git -C /repo status --porcelain --untracked-files=no")[1].strip()
    assert not dirty, "/repo has uncommitted changes: " + dirty
    rc, out = sh(f"git -C /repo apply {os.path.join(d, 'patch.diff')}")
    assert rc == 0, out
    try:
        for p in props:
            t0 = time.time()
            rc, out = sh(f"./run.sh quick {p}", timeout=3600, cwd=ROOT)
            dt = time.time() - t0
            sigs = [l.strip() for l in out.splitlines() if l.strip().startswith("signature:")]
            viol = [l for l in out.splitlines() if l.startswith("VIOLATION")]
            status = "CAUGHT" if rc == 1 and viol else ("INCONCLUSIVE" if rc == 2 else "MISSED")
            print(f"[{name}] {p}: {status} exit={rc} {dt:.0f}s {sigs[:2]}")
            meta.setdefault("checks", {})[p] = {"status": status, "exit": rc, "wall_s": round(dt), "signatures": sigs[:3], "at": time.strftime("%Y-%m-%d %H:%M:%S"), "cmd": f"git -C /repo apply seeded/{name}/patch.diff && ./run.sh quick {p}; git -C /repo checkout -- ."}
    finally:
        sh("git -C /repo checkout -- .")
    json.dump(meta, open(os.path.join(d, "meta.json"), "w"), indent=1)
    # the evidence files were rewritten by a run on a changed tree: restore them
    sh("git checkout -- evidence", cwd=ROOT)


def table():
    for d in sorted(glob.glob(os.path.join(SEEDED, "*"))):
        m = json.load(open(os.path.join(d, "meta.json")))
        cs = m.get("checks", {})
        print(f"{m['name']:28s} {m['property']}  " + "  ".join(f"{k}:{v['status']}" for k, v in cs.items()))


if __name__ == "__main__":
    a = sys.argv[1:]
    if a[0] == "ingest":
        kind = "test"
        args = ""
        if "--demo-kind" in a:
            kind = a[a.index("--demo-kind") + 1]
        if "--demo-args" in a:
            args = a[a.index("--demo-args") + 1]
        ingest(a[1], a[2], a[3], kind, args)
    elif a[0] == "run":
        run(a[1], a[2:])
    elif a[0] == "table":
        table()
