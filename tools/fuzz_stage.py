#!/usr/bin/env python3
"""Coverage-guided stage of a thorough check: runs the libFuzzer target that
shares decoder, interpreter and oracle with the proptest check, for a fixed
number of runs, and merges what it did into the evidence file.

usage: fuzz_stage.py <property-id>
exit 0 = no violation; 1 = VIOLATION (replay written by the target); 2 = inconclusive.
"""
import json, os, random, re, shutil, subprocess, sys, tempfile, time, glob

ROOT = os.path.dirname(os.path.dirname(os.path.abspath(__file__)))
TARGETS = {"C01": "simk", "C02": "simk", "C03": "simk", "C04": "simk", "C09": "simproc", "C10": "simproc", "C11": "simproc"}
RUNS = {"simk": 40000, "simproc": 200000}  # per job
JOBS = 16


def main():
    pid = sys.argv[1]
    target = TARGETS.get(pid)
    if not target:
        return 0
    seed = int(os.environ.get("VERIF_SEED", "1") or 1)
    t0 = time.time()
    fdir = os.path.join(ROOT, "harness", "fuzz")
    env = dict(os.environ, CARGO_NET_OFFLINE="true")
    b = subprocess.run(["cargo", "+nightly", "fuzz", "build", "-s", "none", target], cwd=fdir, env=env, capture_output=True, text=True)
    if b.returncode != 0:
        print(f"INCONCLUSIVE property={pid} fuzz target build failed:\n{b.stderr[-2000:]}", file=sys.stderr)
        return 2
    binp = os.path.join(fdir, "target", "x86_64-unknown-linux-gnu", "release", target)
    work = tempfile.mkdtemp(prefix=f"verif-fuzz-{pid}-", dir=os.environ.get("TMPDIR", "/tmp"))
    out = os.path.join(ROOT, "replays", pid)
    os.makedirs(out, exist_ok=True)
    rng = random.Random(seed * 1000003 + sum(ord(ch) for ch in pid))
    procs = []
    try:
        for j in range(JOBS):
            corpus = os.path.join(work, f"corpus{j}")
            os.makedirs(corpus)
            # a few random starting inputs (libFuzzer ramps length slowly from an empty corpus)
            for k in range(24):
                with open(os.path.join(corpus, f"seed{k}"), "wb") as f:
                    f.write(bytes(rng.getrandbits(8) for _ in range(rng.choice([64, 256, 700]))))
            e = dict(env, VERIF_ROOT=ROOT, VERIF_FUZZ_OUT=out, VERIF_FUZZ_FOCUS=pid)
            log = open(os.path.join(work, f"log{j}"), "w")
            p = subprocess.Popen([binp, corpus, f"-runs={RUNS[target]}", f"-seed={seed * 100 + j + 1}", "-max_len=1024", "-len_control=0", f"-artifact_prefix={work}/crash{j}-", "-print_final_stats=1"], env=e, stdout=log, stderr=subprocess.STDOUT, cwd=work)
            procs.append((p, log))
        execs = 0
        cov = 0
        crashed = []
        for j, (p, log) in enumerate(procs):
            rc = p.wait()
            log.close()
            txt = open(os.path.join(work, f"log{j}"), errors="replace").read()
            m = re.search(r"stat::number_of_executed_units:\s*(\d+)", txt)
            if m:
                execs += int(m.group(1))
            cs = re.findall(r"cov: (\d+)", txt)
            if cs:
                cov = max(cov, int(cs[-1]))
            if rc != 0:
                crashed.append((j, rc, txt))
        viol = []
        for j, rc, txt in crashed:
            m = re.search(r"VERIF-FUZZ-VIOLATION property=(\S+) replay=(\S+)", txt)
            if m:
                viol.append((m.group(1), m.group(2)))
            else:
                print(f"INCONCLUSIVE property={pid} fuzz job {j} ended with status {rc} without a violation record:\n{txt[-1500:]}", file=sys.stderr)
                return 2
        # merge into the evidence file written by the proptest stage
        ev = os.path.join(ROOT, "evidence", f"{pid}.json")
        try:
            e = json.load(open(ev))
            e["coverage"]["fuzz"] = {"engine": "libFuzzer (cargo-fuzz), target " + target, "jobs": JOBS, "runs_per_job": RUNS[target], "executed_units": execs, "edge_coverage": cov, "violations": len(set(viol)), "wall_s": round(time.time() - t0, 1), "decoder": "arbitrary::Unstructured -> same case struct, interpreter and oracle as the proptest stage (harness/src/fuzzdec.rs)"}
            e["coverage"]["evaluations"] = e["coverage"].get("evaluations", 0) + execs
            e["wall_s"] = round(e.get("wall_s", 0) + time.time() - t0, 1)
            if viol:
                e["violations"] = e.get("violations", 0) + len(viol)
            json.dump(e, open(ev, "w"), indent=1)
        except Exception as ex:
            print(f"warning: cannot merge fuzz statistics into {ev}: {ex}", file=sys.stderr)
        for prop, path in sorted(set(viol)):
            print(f"VIOLATION property={prop} replay={path}")
        print(f"fuzz stage property={pid} target={target} executed_units={execs} edge_coverage={cov} violations={len(viol)} wall_s={time.time() - t0:.1f}")
        return 1 if viol else 0
    finally:
        shutil.rmtree(work, ignore_errors=True)


if __name__ == "__main__":
    sys.exit(main())
