#!/usr/bin/env python3
"""Sensitivity testing: apply a hand-written mutation to /repo (working tree
only), run the registered quick check(s), restore the tree.
usage: mutants.py [name-substring ...]     (no args: all)
A mutant is {name, props:[ids expected to fail], file, old, new [, count]}.
Results are appended to tools/mutants_results.jsonl."""
import json, subprocess, sys, os, time
HERE = os.path.dirname(os.path.abspath(__file__))
ROOT = os.path.dirname(HERE)
M = json.load(open(os.path.join(HERE, "mutants.json")))

def sh(cmd, timeout=None, **kw):
    import signal
    p = subprocess.Popen(cmd, shell=True, text=True, stdout=subprocess.PIPE, stderr=subprocess.PIPE, start_new_session=True, **kw)
    try:
        out, err = p.communicate(timeout=timeout)
    except subprocess.TimeoutExpired:
        os.killpg(p.pid, signal.SIGKILL)
        out, err = p.communicate()
        out += "\nTIMEOUT"
    class R: pass
    r = R(); r.stdout = out; r.stderr = err; r.returncode = p.returncode
    return r

WORK = os.environ.get("VMUT_DIR", "/var/tmp/vmut")
REPO = os.path.join(WORK, "repo")
VROOT = os.path.join(WORK, "verif")

def sync():
    """Scratch copies of /repo (HEAD working tree) and /verif, so that /repo and
    /verif/harness stay usable while mutants run.  Removed with `mutants.py --clean`."""
    os.makedirs(WORK, exist_ok=True)
    sh(f"rsync -a --delete --exclude target --exclude .git /repo/ {REPO}/")
    sh(f"rsync -a --delete --exclude harness/target --exclude replays --exclude evidence --exclude .git --exclude tools/mutants_results.jsonl /verif/ {VROOT}/")
    for f in ["harness/Cargo.toml", "harness/wincheck/Cargo.toml"]:
        pth = os.path.join(VROOT, f)
        t = open(pth).read().replace('path = "/repo"', f'path = "{REPO}"')
        open(pth, "w").write(t)
    os.environ["VERIF_REPO"] = REPO

def main():
    sel = sys.argv[1:]
    if sel == ["--clean"]:
        sh(f"rm -rf {WORK}"); return
    sync()
    ROOT = VROOT
    results = []
    for m in M:
        if sel and not any(s in m["name"] for s in sel):
            continue
        path = os.path.join(REPO, m["file"])
        src = open(path).read()
        cnt = src.count(m["old"])
        if cnt != m.get("count", 1):
            print(f"[{m['name']}] pattern occurs {cnt} times, expected {m.get('count',1)}: SKIP"); continue
        try:
            open(path, "w").write(src.replace(m["old"], m["new"]))
            t = sh(f"cd {REPO} && cargo test --offline 2>&1 | grep -E '^test result'", timeout=90)
            lines = [l for l in t.stdout.splitlines() if l.startswith("test result")]
            passed = "TIMEOUT" not in t.stdout and len(lines) >= 3 and all(" 0 failed" in l for l in lines)
            if "TIMEOUT" in t.stdout:
                passed = "hang"
            for pid in m["props"]:
                t0 = time.time()
                r = sh(f"cd {ROOT} && ./run.sh quick {pid}", timeout=1800)
                dt = time.time() - t0
                viol = [l for l in r.stdout.splitlines() if l.startswith("VIOLATION")]
                sig = [l.strip() for l in r.stdout.splitlines() if l.strip().startswith("signature:")]
                status = "CAUGHT" if r.returncode == 1 and viol else ("INCONCLUSIVE" if r.returncode == 2 else "MISSED")
                print(f"[{m['name']}] {pid}: {status} exit={r.returncode} {dt:.1f}s repo-tests-pass={passed} {sig[:2]}")
                results.append({"mutant": m["name"], "property": pid, "status": status, "exit": r.returncode, "wall_s": round(dt,1), "repo_tests_pass": passed, "signatures": sig[:3]})
        finally:
            open(path, "w").write(src)
    with open(os.path.join(HERE, "mutants_results.jsonl"), "a") as f:
        for r in results:
            f.write(json.dumps(r) + "\n")

if __name__ == "__main__":
    main()
