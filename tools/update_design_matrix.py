#!/usr/bin/env python3
"""Refresh the catch matrix in DESIGN.md from tools/matrix.py."""
import subprocess, os, re
ROOT = os.path.dirname(os.path.dirname(os.path.abspath(__file__)))
m = subprocess.run(["python3", os.path.join(ROOT, "tools", "matrix.py")], capture_output=True, text=True).stdout
p = os.path.join(ROOT, "DESIGN.md")
s = open(p).read()
a = s.index("<!-- MATRIX:BEGIN -->") + len("<!-- MATRIX:BEGIN -->")
b = s.index("<!-- MATRIX:END -->")
open(p, "w").write(s[:a] + "\n" + m + s[b:])
print("matrix updated")
