#!/bin/bash
# run.sh <quick|thorough|replay> <property-id> [replay-file]
# Rebuilds the harness against /repo's current working tree (path dependency +
# build.rs extraction), then runs the check.  Exit 0 = held, 1 = VIOLATION,
# 2 = inconclusive (build failure, watchdog, worker crash).
set -u
mode="${1:-}"; id="${2:-}"; path="${3:-}"
here="$(cd "$(dirname "$0")" && pwd)"
export VERIF_ROOT="$here"
export CARGO_NET_OFFLINE=true
cd "$here/harness" || exit 2
case "$id" in
  C20) pkg=wincheck; bin=wincheck ;;
  *)   pkg=verif-harness; bin=verif ;;
esac
mkdir -p "$here/evidence"
log="$(mktemp "${TMPDIR:-/tmp}/verif-build-XXXXXX.log")"
if ! cargo build --release --offline -p "$pkg" >"$log" 2>&1; then
  echo "INCONCLUSIVE property=$id harness build failed:" >&2
  tail -n 40 "$log" >&2
  rm -f "$log"
  exit 2
fi
rm -f "$log"
cd "$here" || exit 2
# Secondary stages on the cfg(windows) code, extracted at build time into the
# wincheck crate: the threaded communicator run over real pipes (C02, C03, C04)
# and the environment-block builder against a reference model (C06).  A build
# failure of that crate (Windows-only source that no longer compiles in
# isolation) skips the stage with a note; it never turns into a verdict.
win_stage() {
  case "$id" in
    C02|C03|C04|C06)
      if ( cd "$here/harness" && cargo build --release --offline -p wincheck >/dev/null 2>&1 ); then
        if [ "$id" = C06 ]; then
          "$here/harness/target/release/wincheck" stage envblock "$mode"; return $?
        fi
        "$here/harness/target/release/wincheck" stage wincomm "$id" "$mode"; return $?
      else
        echo "NOTE property=$id windows-variant stage skipped: extracted Windows code does not build" >&2
      fi ;;
  esac
  return 0
}
case "$mode" in
  quick)
    "$here/harness/target/release/$bin" check "$id" "$mode"; rc=$?
    if [ "$rc" = 0 ]; then win_stage; rc=$?; fi
    exit $rc ;;
  thorough)
    "$here/harness/target/release/$bin" check "$id" "$mode"; rc=$?
    if [ "$rc" = 0 ]; then win_stage; rc=$?; fi
    # coverage-guided stage (libFuzzer) for the properties decided on the simulated engines
    case "$id" in
      C01|C02|C03|C04|C09|C10|C11)
        if [ "$rc" = 0 ]; then python3 "$here/tools/fuzz_stage.py" "$id"; rc=$?; fi ;;
    esac
    exit $rc ;;
  replay)
    if [ -n "$path" ] && grep -q '"engine": "win_\(raw\|env\)"' "$path" 2>/dev/null; then
      ( cd "$here/harness" && cargo build --release --offline -p wincheck >/dev/null 2>&1 ) || exit 2
      exec "$here/harness/target/release/wincheck" replay "$id" "$path"
    fi
    exec "$here/harness/target/release/$bin" replay "$id" "$path" ;;
  *) echo "usage: run.sh <quick|thorough|replay> <id> [path]" >&2; exit 2 ;;
esac
